#!/bin/bash
# tools_seed_verify.sh <ID> <src-dir>: confirm a seeded change (demo passes on clean tree, fails with the patch),
# run the pinned test-suite on the patched tree, and store everything under /verif/seeded/<ID>/
set -u
ID=$1; SRC=$2
DST=/verif/seeded/$ID; mkdir -p $DST
cp $SRC/patch.diff $SRC/demo.py $SRC/meta.json $DST/ 2>/dev/null
# helper modules a demo imports (same directory)
for h in $(grep -ohE "^(from|import) +[a-z_]+" $SRC/demo.py | awk '{print $2}' | sort -u); do [ -f $SRC/$h.py ] && cp $SRC/$h.py $DST/; done
[ -f $SRC/patch.orig.diff ] && cp $SRC/patch.orig.diff $DST/
WT=/dev/shm/verif-seedchk-$ID
git -C /repo worktree remove --force $WT >/dev/null 2>&1; rm -rf $WT
git -C /repo worktree add -q --detach $WT HEAD || exit 2
( cd $WT && PYTHONPATH=$WT timeout 600 /venv/bin/python $DST/demo.py > $DST/demo_clean.log 2>&1; echo "demo on clean tree: exit $?" ) | tee $DST/verify.log
git -C $WT apply --whitespace=nowarn $DST/patch.diff || { echo "patch does not apply" | tee -a $DST/verify.log; exit 2; }
( cd $WT && PYTHONPATH=$WT timeout 600 /venv/bin/python $DST/demo.py > $DST/demo_patched.log 2>&1; echo "demo on patched tree: exit $?" ) | tee -a $DST/verify.log
if [ "${3:-}" != "nosuite" ]; then
( cd $WT && PYTHONPATH=$WT timeout 6000 /venv/bin/python -m pytest -q -p no:cacheprovider --timeout=900 --continue-on-collection-errors --junitxml=/dev/shm/verif-seedchk-$ID.xml > /dev/shm/verif-seedchk-$ID.suite.log 2>&1
  /venv/bin/python - <<PY | tee -a $DST/verify.log
import json, xml.etree.ElementTree as ET
sp=set(json.load(open('/root/.vp/BASELINE.json'))['stable_pass'])
passed=set()
for tc in ET.parse('/dev/shm/verif-seedchk-$ID.xml').iter('testcase'):
    if not any(ch.tag in('failure','error','skipped') for ch in tc):
        passed.add(f"{tc.get('classname')}::{tc.get('name')}")
miss=sorted(sp-passed)
print(f"pinned suite on patched tree: {len(sp&passed)}/{len(sp)} stable tests pass; newly failing: {miss[:5]}")
PY
)
fi
git -C /repo worktree remove --force $WT >/dev/null 2>&1; rm -rf $WT /dev/shm/verif-seedchk-$ID.xml /dev/shm/verif-seedchk-$ID.suite.log
