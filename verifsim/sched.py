"""Baton-passing scheduler and SimComm (a fake mpi4py communicator).

Every simulated MPI rank is a real thread running real NIFTy code, but only
one thread is runnable at any instant.  A rank runs until it reaches a seam
operation (a SimComm method, a SimFS operation); there it parks *before*
performing the operation and hands the baton back to the scheduler, which
picks - with a Policy that is either seeded or a recorded list - one parked
rank whose pending transition is enabled and releases exactly that rank.
"""
import pickle
import sys
import threading
import types

import numpy as np

from .core import digest

_tls = threading.local()


def _new_sem():
    import _thread
    l = _thread.allocate_lock()
    l.acquire()
    return l


class SimAbort(BaseException):
    """Raised inside parked rank threads when a run is torn down."""


class ProtocolError(Exception):
    """The code under test used the communicator in a way MPI forbids."""


class ReplayDivergence(Exception):
    """A recorded choice was not enabled on replay (harness error)."""


def current_sim():
    return getattr(_tls, "sim", None)


def current_rank():
    return getattr(_tls, "rank", None)


# --------------------------------------------------------------------------
# scheduling policies
# --------------------------------------------------------------------------
class Policy:
    name = "policy"

    def pick(self, enabled, step, sim):
        raise NotImplementedError


class LowFirst(Policy):
    name = "low"

    def pick(self, enabled, step, sim):
        return enabled[0]


class HighFirst(Policy):
    name = "high"

    def pick(self, enabled, step, sim):
        return enabled[-1]


class Uniform(Policy):
    name = "uniform"

    def __init__(self, rng):
        self.rng = rng

    def pick(self, enabled, step, sim):
        return enabled[self.rng.randrange(len(enabled))]


class PCT(Policy):
    """Priority scheduling with d random priority-change points."""
    name = "pct"

    def __init__(self, rng, n, d, est_steps):
        self.prio = list(range(n))
        rng.shuffle(self.prio)
        self.low = -1
        self.points = sorted(rng.randrange(max(1, est_steps)) for _ in range(d))
        self.name = f"pct{d}"

    def pick(self, enabled, step, sim):
        r = max(enabled, key=lambda x: self.prio[x])
        while self.points and self.points[0] <= step:
            self.points.pop(0)
            self.prio[r] = self.low
            self.low -= 1
            r = max(enabled, key=lambda x: self.prio[x])
        return r


class Starve(Policy):
    """Rank k only runs when nobody else can (slow node)."""

    def __init__(self, k, rng):
        self.k = k
        self.rng = rng
        self.name = f"starve{k}"

    def pick(self, enabled, step, sim):
        others = [r for r in enabled if r != self.k]
        if others:
            return others[self.rng.randrange(len(others))]
        return enabled[0]


class RoundRobin(Policy):
    name = "rr"

    def __init__(self):
        self.last = -1

    def pick(self, enabled, step, sim):
        for r in enabled:
            if r > self.last:
                self.last = r
                return r
        self.last = enabled[0]
        return enabled[0]


class Replay(Policy):
    """Follow a recorded list of choices; afterwards (or, in lenient mode,
    when a recorded choice is not enabled) fall back to lowest-rank-first."""
    name = "replay"

    def __init__(self, choices, strict=True):
        self.choices = list(choices)
        self.strict = strict

    def pick(self, enabled, step, sim):
        if step < len(self.choices):
            c = self.choices[step]
            if c is None:
                return enabled[0]
            if c in enabled:
                return c
            if self.strict:
                raise ReplayDivergence(f"step {step}: recorded rank {c} not in enabled {enabled}")
        return enabled[0]


def make_policy(rng, n, est_steps=200):
    """Swarm: pick a scheduling policy for one run from the schedule stream."""
    k = rng.randrange(10)
    if k <= 2:
        return Uniform(rng)
    if k <= 5:
        return PCT(rng, n, 1 + rng.randrange(3), est_steps)
    if k == 6:
        return LowFirst()
    if k == 7:
        return HighFirst()
    if k == 8:
        return Starve(rng.randrange(n), rng)
    return RoundRobin()


# --------------------------------------------------------------------------
# semantics choices (latitude MPI gives an implementation)
# --------------------------------------------------------------------------
class Semantics:
    """Decides, per message, eager vs rendezvous and, per rooted collective,
    whether the root returns early.  Choices are keyed by a stable identity so
    that a replay file can list them explicitly."""

    def __init__(self, mode="mixed", rng=None, table=None):
        self.mode = mode      # 'eager' | 'rendezvous' | 'mixed' | 'table'
        self.rng = rng
        self.table = dict(table or {})
        self.used = {}

    def rendezvous(self, key):
        return self._get("s:" + key, self.mode == "rendezvous")

    def root_waits(self, key):
        return self._get("b:" + key, self.mode == "rendezvous")

    def _get(self, key, dflt_fixed):
        if key in self.used:
            return self.used[key]
        if self.mode == "table":
            v = bool(self.table.get(key, False))
        elif self.mode == "mixed":
            v = self.rng.random() < 0.5
        elif self.mode == "eager":
            v = False
        else:
            v = dflt_fixed
        self.used[key] = v
        return v


# --------------------------------------------------------------------------
# the simulator
# --------------------------------------------------------------------------
class Outcome:
    def __init__(self):
        self.results = []
        self.status = []      # 'ok' | 'exc' | 'aborted'
        self.exc = []
        self.deadlock = None  # list of (rank, label) or None
        self.step_cap_hit = False
        self.steps = 0
        self.choices = []
        self.nenabled = []
        self.trace = []
        self.semantics = {}
        self.stats = {}
        self.leftover = None
        self.protocol_errors = []

    @property
    def trace_digest(self):
        return digest(self.trace)

    def ok(self):
        return (self.deadlock is None and not self.step_cap_hit
                and all(s == "ok" for s in self.status)
                and not self.protocol_errors)

    def problems(self):
        out = []
        if self.deadlock is not None:
            out.append("deadlock:" + ";".join(f"r{r}@{l}" for r, l in self.deadlock))
        if self.step_cap_hit:
            out.append("step-cap")
        for r, (s, e) in enumerate(zip(self.status, self.exc)):
            if s == "exc":
                out.append(f"rank{r}-raised:{type(e).__name__}")
        for p in self.protocol_errors:
            out.append("protocol:" + p)
        return out


class Sim:
    """One simulated execution of `fn(comm)` on n ranks."""

    # (module name, attribute) pairs that are rank-local in a real MPI job and
    # therefore swapped at every baton hand-off
    RANK_LOCAL = (("nifty.cl.random", "_sseq"), ("nifty.cl.random", "_rng"))

    def __init__(self, n, policy=None, semantics=None, step_cap=200000,
                 trace=True, fs=None, on_step=None):
        self.n = n
        self.policy = policy or LowFirst()
        self.sem = semantics or Semantics("eager")
        self.step_cap = step_cap
        self.keep_trace = trace
        self.fs = fs
        self.on_step = on_step
        # raw locks used as binary semaphores (much cheaper than Semaphore)
        self._sema = [_new_sem() for _ in range(n)]
        self._back = _new_sem()
        self.state = ["new"] * n          # parked | running | done
        self.cond = [None] * n
        self.label = [""] * n
        self.abort = False
        self.out = Outcome()
        self.seq = 0
        # point-to-point
        self.mail = {}          # (src,dst) -> list of [msgid, kind, payload, consumed]
        self.sent = {}          # (src,dst) -> count
        self.recv_posted = {}   # (src,dst) -> count of posted-and-unmatched receives
        # collectives
        self.collseq = [0] * n
        self.colls = {}
        self.rankstate = [None] * n
        self.stats = {"send_eager": 0, "send_rendezvous": 0, "rendezvous_blocked": 0,
                      "recv": 0, "recv_blocked": 0, "Send": 0, "Recv": 0,
                      "coll": 0, "bcast_root_early": 0, "bcast_root_wait": 0,
                      "handoffs": 0, "fs_ops": 0, "multi_enabled_steps": 0}

    # ---- rank-local globals ------------------------------------------------
    def _mods(self):
        return [(sys.modules[m], a) for m, a in self.RANK_LOCAL if m in sys.modules]

    def _save(self, r):
        self.rankstate[r] = [getattr(m, a) for m, a in self._mods()]

    def _restore(self, r):
        for (m, a), v in zip(self._mods(), self.rankstate[r]):
            setattr(m, a, v)

    # ---- called from rank threads -----------------------------------------
    def park(self, cond=None, label=""):
        r = _tls.rank
        if self.abort:
            raise SimAbort()
        self.cond[r] = cond
        self.label[r] = label
        self.state[r] = "parked"
        self._save(r)
        self._back.release()
        self._sema[r].acquire()
        if self.abort:
            raise SimAbort()
        self._restore(r)
        self.state[r] = "running"

    def event(self, kind, *args):
        self.seq += 1
        if self.keep_trace:
            self.out.trace.append((self.seq, _tls.rank, kind) + args)

    # ---- main loop ---------------------------------------------------------
    def run(self, fn):
        import nifty.cl.random  # noqa: F401  make sure the module is loaded
        n = self.n
        mods = self._mods()
        saved = [getattr(m, a) for m, a in mods]
        base = pickle.dumps(saved)
        out = self.out
        out.results = [None] * n
        out.status = ["aborted"] * n
        out.exc = [None] * n

        def body(r):
            _tls.sim = self
            _tls.rank = r
            self._sema[r].acquire()
            try:
                if self.abort:
                    raise SimAbort()
                self._restore(r)
                self.state[r] = "running"
                out.results[r] = fn(SimComm(self, r))
                out.status[r] = "ok"
            except SimAbort:
                out.status[r] = "aborted"
            except ProtocolError as e:
                out.status[r] = "exc"
                out.exc[r] = e
                out.protocol_errors.append(f"r{r}:{e}")
            except BaseException as e:  # noqa
                out.status[r] = "exc"
                out.exc[r] = e
            finally:
                self.state[r] = "done"
                try:
                    self._save(r)
                except Exception:
                    pass
                _tls.sim = None
                _tls.rank = None
                self._back.release()

        threads = [threading.Thread(target=body, args=(r,), daemon=True) for r in range(n)]
        for r in range(n):
            self.rankstate[r] = pickle.loads(base)
            self.state[r] = "parked"
            self.cond[r] = None
            self.label[r] = "start"
        for t in threads:
            t.start()
        step = 0
        try:
            while True:
                alive = [r for r in range(n) if self.state[r] != "done"]
                if not alive:
                    break
                enabled = [r for r in alive if self.cond[r] is None or self.cond[r]()]
                if not enabled:
                    out.deadlock = [(r, self.label[r]) for r in alive]
                    break
                if step >= self.step_cap:
                    out.step_cap_hit = True
                    break
                r = self.policy.pick(enabled, step, self)
                out.choices.append(r)
                out.nenabled.append(len(enabled))
                if len(enabled) > 1:
                    self.stats["multi_enabled_steps"] += 1
                step += 1
                self.stats["handoffs"] += 1
                self._sema[r].release()
                self._back.acquire()
                if self.on_step is not None:
                    self.on_step(self, step)
        finally:
            alive = [r for r in range(n) if self.state[r] != "done"]
            if alive:
                self.abort = True
                for r in alive:
                    self._sema[r].release()
                    self._back.acquire()
            for t in threads:
                t.join(timeout=10)
            for (m, a), v in zip(mods, saved):
                setattr(m, a, v)
        out.steps = step
        out.semantics = dict(self.sem.used)
        out.stats = dict(self.stats)
        buffered = sum(1 for q in self.mail.values() for m in q if not m[3])
        posted = sum(self.recv_posted.values())
        out.leftover = {"buffered_messages": buffered, "posted_receives": posted,
                        "collective_counts": list(self.collseq)}
        return out


def _pkl(obj):
    return pickle.dumps(obj, protocol=pickle.HIGHEST_PROTOCOL)


class Intracomm:
    """Base class installed as the stub `mpi4py.MPI.Intracomm`."""


class SimComm(Intracomm):
    """The mpi4py subset NIFTy uses, with MPI-3.1 semantics."""

    def __init__(self, sim, rank):
        self._sim = sim
        self._rank = rank

    def Get_size(self):
        return self._sim.n

    def Get_rank(self):
        return self._rank

    # pickling a communicator is an error in mpi4py as well
    def __reduce__(self):
        raise TypeError("cannot pickle a communicator")

    # ---- point to point ----------------------------------------------------
    def _post_send(self, kind, payload, dest, meta=None):
        S, me = self._sim, self._rank
        if not (isinstance(dest, (int, np.integer)) and 0 <= dest < S.n):
            raise ProtocolError(f"send to invalid rank {dest!r}")
        dest = int(dest)
        if dest == me:
            # a blocking standard-mode send to self may deadlock; NIFTy never does it
            raise ProtocolError("send to self")
        key = (me, dest)
        S.park(None, f"{kind}->{dest}")
        k = S.sent.get(key, 0)
        S.sent[key] = k + 1
        rdv = S.sem.rendezvous(f"{me}>{dest}#{k}")
        msg = [k, kind, payload, False, meta, S.seq]      # S.seq: global posting order
        S.mail.setdefault(key, []).append(msg)
        S.event(kind, dest, k, "rdv" if rdv else "eager")
        if rdv:
            S.stats["send_rendezvous"] += 1
            if not msg[3]:
                S.stats["rendezvous_blocked"] += 1
            S.park(lambda: msg[3], f"{kind}-wait->{dest}")
            S.event(kind + "-done", dest, k)
        else:
            S.stats["send_eager"] += 1

    def _match_recv(self, kind, source):
        S, me = self._sim, self._rank
        if source is None or (isinstance(source, (int, np.integer)) and source < 0):
            return self._match_any(kind)
        if not (isinstance(source, (int, np.integer)) and 0 <= source < S.n):
            raise ProtocolError(f"recv from invalid rank {source!r}")
        source = int(source)
        key = (source, me)
        S.recv_posted[key] = S.recv_posted.get(key, 0) + 1

        def avail():
            q = S.mail.get(key)
            return bool(q) and any(not m[3] for m in q)
        if not avail():
            S.stats["recv_blocked"] += 1
        S.park(avail, f"{kind}<-{source}")
        S.recv_posted[key] -= 1
        q = S.mail[key]
        msg = next(m for m in q if not m[3])   # non-overtaking: first unconsumed
        msg[3] = True
        S.event(kind, source, msg[0])
        if msg[1] != kind:
            raise ProtocolError(f"{kind} matched a message sent with {msg[1]}")
        return msg

    def _match_any(self, kind):
        """MPI_ANY_SOURCE: matches the message to this rank that was posted
        first (per sender the order is fixed; between senders it is whatever
        the schedule produced - which is exactly what the search varies)."""
        S, me = self._sim, self._rank
        S.stats["recv_any_source"] = S.stats.get("recv_any_source", 0) + 1

        def heads():
            out = []
            for (src, dst), q in S.mail.items():
                if dst == me:
                    m = next((m for m in q if not m[3]), None)
                    if m is not None:
                        out.append((m[5], src, m))
            return sorted(out, key=lambda t: (t[0], t[1]))
        if not heads():
            S.stats["recv_blocked"] += 1
        S.park(lambda: bool(heads()), f"{kind}<-ANY")
        _, src, msg = heads()[0]
        msg[3] = True
        S.event(kind, src, msg[0], "any-source")
        if msg[1] != kind:
            raise ProtocolError(f"{kind} matched a message sent with {msg[1]}")
        return msg

    def send(self, obj, dest, tag=0):
        self._post_send("send", _pkl(obj), dest)

    def recv(self, buf=None, source=None, tag=0, status=None):
        self._sim.stats["recv"] += 1
        msg = self._match_recv("send", source)
        return pickle.loads(msg[2])

    def Send(self, buf, dest, tag=0):
        a = np.asarray(buf)
        self._sim.stats["Send"] += 1
        self._post_send("Send", _raw_bytes(a), dest, meta=(str(a.dtype), a.size))

    def Recv(self, buf, source=None, tag=0, status=None):
        flat = _raw_view(buf, writable=True)
        self._sim.stats["Recv"] += 1
        msg = self._match_recv("Send", source)
        dt, size = msg[4]
        if dt != str(buf.dtype) or size != buf.size:
            raise ProtocolError(f"Recv buffer {buf.dtype}x{buf.size} does not match message {dt}x{size}")
        flat[...] = np.frombuffer(msg[2], dtype=buf.dtype)

    # ---- collectives -------------------------------------------------------
    def _enter(self, kind, root, payload, meta=None):
        S, me = self._sim, self._rank
        S.park(None, f"{kind}-enter")
        k = S.collseq[me]
        S.collseq[me] += 1
        ent = S.colls.get(k)
        if ent is None:
            ent = S.colls[k] = {"kind": kind, "root": root, "vals": {}, "meta": {}}
            S.stats["coll"] += 1
        if ent["kind"] != kind or ent["root"] != root:
            raise ProtocolError(f"collective #{k}: rank {me} calls {kind}(root={root}) but "
                                f"another rank called {ent['kind']}(root={ent['root']})")
        ent["vals"][me] = payload
        ent["meta"][me] = meta
        S.event(kind, k, root)
        return k, ent

    def _wait_all(self, kind, k, ent):
        S = self._sim
        S.park(lambda: len(ent["vals"]) == S.n, f"{kind}#{k}-wait-all")
        S.event(kind + "-done", k)

    def _check_root(self, root):
        if not (isinstance(root, (int, np.integer)) and 0 <= root < self._sim.n):
            raise ProtocolError(f"invalid root {root!r}")
        return int(root)

    def Barrier(self):
        k, ent = self._enter("barrier", None, b"")
        self._wait_all("barrier", k, ent)

    barrier = Barrier

    def allgather(self, obj):
        k, ent = self._enter("allgather", None, _pkl(obj))
        self._wait_all("allgather", k, ent)
        return [pickle.loads(ent["vals"][i]) for i in range(self._sim.n)]

    @staticmethod
    def _reduce_vals(vals, op):
        """Reduction in rank order (mpi4py applies python-object reductions that way)."""
        name = getattr(op, "name", None) if op is not None else "SUM"
        res = vals[0]
        for v in vals[1:]:
            if name == "SUM":
                res = res + v
            elif name == "MAX":
                res = max(res, v)
            elif name == "MIN":
                res = min(res, v)
            elif name == "PROD":
                res = res * v
            elif name == "LAND":
                res = bool(res) and bool(v)
            elif name == "LOR":
                res = bool(res) or bool(v)
            elif callable(op):
                res = op(res, v)
            else:
                raise ProtocolError(f"reduction op {op!r} is not modelled")
        return res

    def allreduce(self, obj, op=None):
        k, ent = self._enter("allreduce", None, _pkl(obj))
        self._wait_all("allreduce", k, ent)
        vals = [pickle.loads(ent["vals"][i]) for i in range(self._sim.n)]
        return self._reduce_vals(vals, op)

    def reduce(self, obj, op=None, root=0):
        root = self._check_root(root)
        k, ent = self._enter("reduce", root, _pkl(obj))
        # the root needs everybody's contribution; the others may leave once they have contributed
        if self._rank == root:
            self._wait_all("reduce", k, ent)
            return self._reduce_vals([pickle.loads(ent["vals"][i]) for i in range(self._sim.n)], op)
        return None

    def gather(self, obj, root=0):
        root = self._check_root(root)
        k, ent = self._enter("gather", root, _pkl(obj))
        if self._rank == root:
            self._wait_all("gather", k, ent)
            return [pickle.loads(ent["vals"][i]) for i in range(self._sim.n)]
        return None

    def scatter(self, objs, root=0):
        root = self._check_root(root)
        me = self._rank
        if me == root and (objs is None or len(objs) != self._sim.n):
            raise ProtocolError("scatter needs one object per task on the root")
        ent, root = self._rooted("scatter", root, _pkl(list(objs)) if me == root else None, None)
        return pickle.loads(ent["vals"][root])[me]

    def Allreduce(self, sendbuf, recvbuf, op=None):
        a = np.asarray(sendbuf)
        k, ent = self._enter("Allreduce", None, _raw_bytes(a), (str(a.dtype), a.size))
        self._wait_all("Allreduce", k, ent)
        if len({ent["meta"][i] for i in range(self._sim.n)}) != 1:
            raise ProtocolError("Allreduce buffers differ between tasks")
        vals = [np.frombuffer(ent["vals"][i], dtype=a.dtype) for i in range(self._sim.n)]
        flat = _raw_view(recvbuf, writable=True)
        flat[...] = self._reduce_vals(vals, op)

    def _rooted(self, kind, root, payload, meta):
        S, me = self._sim, self._rank
        root = self._check_root(root)
        k, ent = self._enter(kind, root, payload if me == root else None, meta)
        if me == root:
            if S.sem.root_waits(f"{k}"):
                S.stats["bcast_root_wait"] += 1
                self._wait_all(kind, k, ent)
            else:
                S.stats["bcast_root_early"] += 1
        else:
            S.park(lambda: root in ent["vals"], f"{kind}#{k}-wait-root")
            S.event(kind + "-done", k)
        return ent, root

    def bcast(self, obj, root=0):
        ent, root = self._rooted("bcast", root, _pkl(obj), None)
        return pickle.loads(ent["vals"][root])

    def Bcast(self, buf, root=0):
        me = self._rank
        a = buf
        if not isinstance(a, np.ndarray):
            raise ProtocolError("Bcast of a non-array buffer")
        isroot = (me == root)
        flat = _raw_view(a, writable=not isroot)
        ent, root = self._rooted("Bcast", root, _raw_bytes(a) if isroot else None,
                                 (str(a.dtype), a.size))
        if me != root:
            if ent["meta"][root] != (str(a.dtype), a.size):
                raise ProtocolError(f"Bcast buffer mismatch {ent['meta'][root]} vs {(str(a.dtype), a.size)}")
            flat[...] = np.frombuffer(ent["vals"][root], dtype=a.dtype)


def _raw_view(a, writable):
    """1-d view of the memory of a contiguous array, as mpi4py's buffer access
    (PyBUF_ANY_CONTIGUOUS) sees it: C- or F-contiguous memory is accepted and
    transferred in *memory order*; anything else raises like numpy does."""
    if not isinstance(a, np.ndarray):
        raise ProtocolError("buffer is not an ndarray")
    if not (a.flags.c_contiguous or a.flags.f_contiguous):
        raise ValueError("ndarray is not contiguous")
    if writable and not a.flags.writeable:
        raise ValueError("buffer source array is read-only")
    flat = a.reshape(-1, order="A")
    if a.size and not np.shares_memory(flat, a):
        raise ProtocolError("internal: raw view copied")
    return flat


def _raw_bytes(a):
    if not (a.flags.c_contiguous or a.flags.f_contiguous):
        raise ValueError("ndarray is not contiguous")
    return a.tobytes(order="A")


def install_mpi_stub():
    """Make `import mpi4py; mpi4py.MPI.Intracomm` work (libmpi is absent)."""
    try:
        import mpi4py
    except ImportError:
        mpi4py = types.ModuleType("mpi4py")
        sys.modules["mpi4py"] = mpi4py
    m = sys.modules.get("mpi4py.MPI")
    if m is None or not getattr(m, "_verifsim_stub", False):
        m = types.ModuleType("mpi4py.MPI")
        m._verifsim_stub = True
        m.Intracomm = Intracomm
        m.Comm = Intracomm
        for _nm in ("SUM", "MAX", "MIN", "PROD", "LAND", "LOR"):
            setattr(m, _nm, types.SimpleNamespace(name=_nm))
        m.ANY_SOURCE = -1
        sys.modules["mpi4py.MPI"] = m
        mpi4py.MPI = m
    return m


def run_ranks(fn, n, policy=None, semantics=None, **kw):
    return Sim(n, policy, semantics, **kw).run(fn)


# --------------------------------------------------------------------------
# explicit, PRNG-free descriptions of a schedule and of semantics choices
# --------------------------------------------------------------------------
def build_policy(spec, n, est_steps=200):
    """spec: {'kind': 'low'|'high'|'rr'} | {'kind': 'seeded', 'seed': int}
             | {'kind': 'replay', 'choices': [...], 'strict': bool}"""
    import random
    kind = spec["kind"]
    if kind == "low":
        return LowFirst()
    if kind == "high":
        return HighFirst()
    if kind == "rr":
        return RoundRobin()
    if kind == "seeded":
        return make_policy(random.Random(spec["seed"]), n, est_steps)
    if kind == "replay":
        return Replay(spec["choices"], spec.get("strict", True))
    raise ValueError(kind)


def build_semantics(spec):
    """spec: {'mode': 'eager'|'rendezvous'} | {'mode': 'mixed', 'seed': int}
             | {'mode': 'table', 'table': {...}}"""
    import random
    mode = spec["mode"]
    if mode == "mixed":
        return Semantics("mixed", random.Random(spec["seed"]))
    if mode == "table":
        return Semantics("table", table=spec["table"])
    return Semantics(mode)


def simulate(fn, n, sched_spec, sem_spec, **kw):
    return Sim(n, build_policy(sched_spec, n, kw.pop("est_steps", 200)),
               build_semantics(sem_spec), **kw).run(fn)


def explicit_specs(out):
    """The PRNG-free specs that reproduce a finished run exactly."""
    return ({"kind": "replay", "choices": list(out.choices), "strict": True},
            {"mode": "table", "table": {k: v for k, v in sorted(out.semantics.items()) if v}})
