"""PRNG discipline and digests.  One integer (VERIF_SEED) decides everything."""
import hashlib
import os
import random
import struct

import numpy as np


def h64(*parts):
    """64-bit integer from a blake2b over the '/'-joined string parts."""
    s = "/".join(str(p) for p in parts).encode()
    return int.from_bytes(hashlib.blake2b(s, digest_size=8).digest(), "big")


def verif_seed():
    return int(os.environ.get("VERIF_SEED", "0"))


def run_seed(seed, engine, r):
    return h64(seed, engine, r)


def stream(rseed, purpose):
    """Independent PRNG stream for one purpose of one run."""
    return random.Random(h64(rseed, purpose))


class Digest:
    """Order-sensitive structural digest over python / numpy / nifty values."""

    def __init__(self):
        self._h = hashlib.blake2b(digest_size=16)

    def _b(self, b):
        self._h.update(struct.pack("<q", len(b)))
        self._h.update(b)

    def add(self, obj):
        self._add(obj)
        return self

    def hex(self):
        return self._h.hexdigest()

    def _add(self, o):
        tag = self._b
        if o is None:
            tag(b"N")
        elif isinstance(o, (bool, np.bool_)):
            tag(b"b1" if o else b"b0")
        elif isinstance(o, (int, np.integer)):
            tag(b"i" + str(int(o)).encode())
        elif isinstance(o, (float, np.floating)):
            tag(b"f" + struct.pack("<d", float(o)))
        elif isinstance(o, (complex, np.complexfloating)):
            tag(b"c" + struct.pack("<dd", complex(o).real, complex(o).imag))
        elif isinstance(o, str):
            tag(b"s" + o.encode())
        elif isinstance(o, (bytes, bytearray)):
            tag(b"y" + bytes(o))
        elif isinstance(o, np.ndarray):
            a = np.ascontiguousarray(o)
            tag(b"a" + str(a.dtype).encode() + b"|" + str(o.shape).encode())
            tag(a.tobytes())
        elif isinstance(o, (list, tuple)):
            tag(b"l" if isinstance(o, list) else b"t")
            tag(str(len(o)).encode())
            for x in o:
                self._add(x)
        elif isinstance(o, dict):
            tag(b"d" + str(len(o)).encode())
            for k in sorted(o.keys(), key=repr):
                self._add(k if isinstance(k, (str, int, tuple)) else repr(k))
                self._add(o[k])
        else:
            self._add(canon(o))


def canon(o):
    """Reduce a nifty / jax object to plain python + numpy for digests and
    comparisons.  Never uses id() / hash()."""
    mod = type(o).__module__ or ""
    name = type(o).__name__
    if mod.startswith("nifty.cl"):
        from nifty.cl.field import Field
        from nifty.cl.multi_field import MultiField
        from nifty.cl.any_array import AnyArray
        if isinstance(o, Field):
            return ("Field", repr(o.domain), np.array(o.val.asnumpy() if hasattr(o.val, "asnumpy") else o.val))
        if isinstance(o, MultiField):
            return ("MultiField", {k: canon(v) for k, v in o.items()})
        if isinstance(o, AnyArray):
            return ("AnyArray", np.array(o.asnumpy()))
        from nifty.cl.minimization.sample_list import SampleListBase
        if isinstance(o, SampleListBase):
            return ("SampleList", name, o.n_samples,
                    [canon(s) for s in o.local_iterator()])
        from nifty.cl.domain_tuple import DomainTuple
        from nifty.cl.multi_domain import MultiDomain
        from nifty.cl.domains.domain import Domain
        if isinstance(o, (DomainTuple, MultiDomain, Domain)):
            return ("Domain", repr(o))
        from nifty.cl.minimization.iteration_controllers import EnergyHistory
        if isinstance(o, EnergyHistory):
            return ("EnergyHistory", list(o.time_stamps), list(o.energy_values))
    if mod.startswith("jax") and hasattr(o, "dtype"):
        import jax
        if jax.dtypes.issubdtype(o.dtype, jax.dtypes.prng_key):
            # typed PRNG keys: the key type (implementation) is part of the value
            return ("prngkey", str(o.dtype), np.asarray(jax.random.key_data(o)))
    if hasattr(o, "__array__") and not isinstance(o, np.ndarray):
        return ("arr", name, np.asarray(o))
    if mod.startswith("nifty.re") or mod.startswith("jax"):
        import jax
        leaves, treedef = jax.tree_util.tree_flatten(o)
        if not (len(leaves) == 1 and leaves[0] is o):
            # (the leaf's python type is part of the value: a numpy array is not a jax array)
            return ("tree", str(treedef), [canon(x) if not isinstance(x, (int, float, bool, np.ndarray)) else x for x in leaves])
    if isinstance(o, (set, frozenset)):
        return ("set", sorted(repr(x) for x in o))
    if isinstance(o, BaseException):
        return ("exc", type(o).__name__, str(o))
    if isinstance(o, type):
        return ("type", o.__module__ + "." + o.__qualname__)
    if hasattr(o, "_asdict"):
        return ("nt", name, {k: v for k, v in o._asdict().items()})
    return ("repr", name, repr(o))


def digest(obj):
    return Digest().add(obj).hex()
