"""verifsim - deterministic simulation with fault injection for NIFTy.

See /verif/DESIGN.md.  Sub-modules:
  core    - PRNG streams, digests, canonicalisation
  sched   - baton-passing scheduler, SimComm (fake mpi4py communicator)
  simfs   - in-memory journalled file system, kill switch, fake clock
  harness - batches, evidence, known findings, replay files
"""
