"""Batches, evidence, known findings, replay files, exit codes."""
import faulthandler
import json
import multiprocessing
import os
import sys
import time
import traceback
from concurrent.futures import ProcessPoolExecutor, as_completed

VERIF = os.path.dirname(os.path.dirname(os.path.abspath(__file__)))


def outdir():
    """Where evidence/ and replays/ go (self-tests redirect them)."""
    return os.environ.get("VERIF_OUT", VERIF)
EXIT_OK, EXIT_VIOLATION, EXIT_HARNESS = 0, 1, 2


class HarnessError(Exception):
    pass


def repo_root():
    return os.environ.get("VERIF_REPO", "/repo")


def bind_repo():
    """Make sure `import nifty` resolves to the tree under test."""
    root = os.path.realpath(repo_root())
    if sys.path[0] != root:
        sys.path.insert(0, root)
    import nifty
    here = os.path.realpath(os.path.dirname(os.path.dirname(nifty.__file__)))
    if here != root:
        raise HarnessError(f"nifty imported from {here}, expected {root}")
    return root


def quiet():
    import logging
    import warnings
    warnings.filterwarnings("ignore")
    try:
        from nifty.cl.logger import logger
        logger.setLevel(logging.CRITICAL)
    except Exception:
        pass
    if "nifty.re" in sys.modules:      # never import jax in a parent that forks
        from nifty.re.logger import logger as rlogger
        rlogger.setLevel(logging.CRITICAL)
    logging.getLogger("jax").setLevel(logging.ERROR)


# --------------------------------------------------------------------------
# parallel batches
# --------------------------------------------------------------------------
def _init_worker(hang_s):
    # one core per worker: baton-passing rank threads never run concurrently and
    # XLA/BLAS thread pools of 16 parallel workers would only fight each other
    try:
        ident = multiprocessing.current_process()._identity
        cpus = sorted(os.sched_getaffinity(0))
        if ident and len(cpus) > 1 and not os.environ.get("VERIF_NO_PIN"):
            os.sched_setaffinity(0, {cpus[(ident[0] - 1) % len(cpus)]})
    except Exception:
        pass
    faulthandler.enable()
    # the hang timer is armed per chunk in _call: a worker that is spawned on demand and then stays idle
    # (another worker took the task) must not be killed for "hanging"


def _call(fn, chunk, hang_s):
    faulthandler.cancel_dump_traceback_later()
    faulthandler.dump_traceback_later(hang_s, exit=True)
    out = []
    for item in chunk:
        try:
            out.append(fn(item))
        except BaseException as e:  # harness exception inside a case
            out.append({"harness_error": f"{type(e).__name__}: {e}",
                        "tb": traceback.format_exc(), "case": _small(item)})
    faulthandler.cancel_dump_traceback_later()
    return out


def _small(x):
    s = repr(x)
    return s if len(s) < 2000 else s[:2000] + "..."


def nworkers():
    w = os.environ.get("VERIF_WORKERS")
    return int(w) if w else min(16, os.cpu_count() or 1)


def pmap(fn, items, workers=None, chunk=None, hang_s=600, budget_s=None):
    """Ordered parallel map over fork()ed workers.  A dead worker or a hang is
    a HarnessError, never a pass.  If budget_s elapses, remaining chunks are
    skipped (results None) - callers must count what actually ran."""
    items = list(items)
    # thorough runs are long and often share the machine with other work: a generous limit still turns a real hang into
    # a harness error, without mistaking a slow, loaded machine for one
    hang_s = int(hang_s * float(os.environ.get("VERIF_HANG_FACTOR", "1")))
    workers = workers or nworkers()
    if workers <= 1 or len(items) <= 1:
        return _call(fn, items, hang_s)
    chunk = chunk or max(1, min(64, len(items) // (workers * 4) or 1))
    chunks = [items[i:i + chunk] for i in range(0, len(items), chunk)]
    res = [None] * len(chunks)
    t0 = time.time()
    ctx = multiprocessing.get_context("fork")
    with ProcessPoolExecutor(workers, mp_context=ctx, initializer=_init_worker,
                             initargs=(hang_s,)) as ex:
        futs = {}
        it = iter(enumerate(chunks))
        pending = set()

        def submit_more():
            while len(pending) < workers * 2:
                if budget_s is not None and time.time() - t0 > budget_s:
                    return
                try:
                    i, c = next(it)
                except StopIteration:
                    return
                f = ex.submit(_call, fn, c, hang_s)
                futs[f] = i
                pending.add(f)
        submit_more()
        while pending:
            done = next(as_completed(list(pending)))
            pending.discard(done)
            try:
                res[futs[done]] = done.result()
            except Exception as e:
                raise HarnessError(f"worker died: {type(e).__name__}: {e}")
            submit_more()
    out = []
    for c, r in zip(chunks, res):
        out.extend(r if r is not None else [None] * len(c))
    return out


# --------------------------------------------------------------------------
# known findings
# --------------------------------------------------------------------------
def load_known(prop):
    p = os.path.join(VERIF, "known_findings.json")
    if not os.path.exists(p):
        return []
    with open(p) as f:
        data = json.load(f)
    return [e for e in data.get("findings", []) if e["property"] == prop]


def match_known(known, sig):
    """An open finding matches a violation iff every key of its signature
    equals the violation's signature entry (exact, or one of a listed set)."""
    for e in known:
        if e.get("status") != "open":
            continue
        ok = True
        for k, v in e["signature"].items():
            sv = sig.get(k)
            if isinstance(v, list):
                if sv not in v:
                    ok = False
            elif sv != v:
                ok = False
        if ok:
            return e
    return None


# --------------------------------------------------------------------------
# reporting
# --------------------------------------------------------------------------
class Report:
    def __init__(self, prop, tier, seed, level):
        self.prop, self.tier, self.seed, self.level = prop, tier, seed, level
        self.t0 = time.time()
        self.violations = []     # (signature dict, replay dict)
        self.known_hits = {}
        self.coverage = {}
        self.assumptions = []
        self.harness_errors = []
        self.known = load_known(prop)

    def harness_error(self, msg):
        self.harness_errors.append(msg)

    def violation(self, sig, replay):
        """sig: dict with at least 'oracle'; replay: self-contained dict."""
        e = match_known(self.known, sig)
        if e is not None:
            k = e["key"]
            self.known_hits.setdefault(k, [e, 0, replay])
            self.known_hits[k][1] += 1
            return False
        self.violations.append((sig, replay))
        return True

    def finish(self, coverage, assumptions=()):
        OUT = outdir()
        os.makedirs(os.path.join(OUT, "evidence"), exist_ok=True)
        os.makedirs(os.path.join(OUT, "replays"), exist_ok=True)
        wall = time.time() - self.t0
        # distinct violation signatures -> replay files
        seen = {}
        for sig, rep in self.violations:
            key = json.dumps(sig, sort_keys=True)
            if key not in seen:
                seen[key] = (sig, rep, 0)
            s, r, c = seen[key]
            seen[key] = (s, r, c + 1)
        lines = []
        for i, (key, (sig, rep, cnt)) in enumerate(sorted(seen.items())):
            path = os.path.join(OUT, "replays", f"{self.prop}-{self.seed}-{i}.json")
            rep = dict(rep)
            rep["property"] = self.prop
            rep["signature"] = sig
            rep["occurrences_in_batch"] = cnt
            with open(path, "w") as f:
                json.dump(rep, f, indent=1, sort_keys=True, default=str)
            lines.append(f"VIOLATION property={self.prop} replay={path}")
            print(f"  signature: {json.dumps(sig, sort_keys=True)}  (x{cnt})")
        for k, (e, cnt, rep) in sorted(self.known_hits.items()):
            print(f"KNOWN-FINDING: property={self.prop} {e['description']} [key={k}, hit {cnt}x]")
        cov = dict(coverage)
        cov.setdefault("known_finding_hits", {k: v[1] for k, v in sorted(self.known_hits.items())})
        cov["wall_s"] = round(wall, 2)
        if cov.get("evaluations") and wall > 0:
            cov["runs_per_hour"] = int(cov["evaluations"] / wall * 3600)
            # one derived PRNG seed per sampled case (crash engines: per base run, whose kill points are then enumerated)
            seeds = cov.setdefault("seeds_used", cov.get("base_runs") or cov["evaluations"])
            cov["seeds_per_hour"] = int(seeds / wall * 3600)
        steps = (cov.get("scheduler_steps") or 0) + (cov.get("simulated_fs_operations") or 0)
        if steps:
            cov["simulated_time_s"] = float(steps)
            cov.setdefault("simulated_time_note", "the virtual clock advances 1 s per seam operation (scheduler hand-off or "
                           "file-system operation); no verdict depends on time")
        ev = {"property_id": self.prop, "tier": self.tier, "seed": self.seed,
              "level": self.level, "coverage": cov,
              "assumptions": list(assumptions) + self.assumptions,
              "wall_s": round(wall, 2), "violations": len(seen)}
        if self.harness_errors:
            ev["coverage"]["harness_errors"] = self.harness_errors[:20]
        path = os.path.join(OUT, "evidence", f"{self.prop}.json")
        tmp = path + ".tmp"
        with open(tmp, "w") as f:
            json.dump(ev, f, indent=1, sort_keys=True, default=str)
        os.replace(tmp, path)
        for l in lines:
            print(l)
        if self.harness_errors:
            for h in self.harness_errors[:10]:
                print("HARNESS-ERROR:", h)
            return EXIT_HARNESS
        if lines:
            return EXIT_VIOLATION
        print(f"OK property={self.prop} tier={self.tier} seed={self.seed} "
              f"evaluations={cov.get('evaluations')} distinct_nontrivial={cov.get('distinct_nontrivial')} "
              f"wall={wall:.1f}s")
        return EXIT_OK


def parse_args(argv):
    import argparse
    ap = argparse.ArgumentParser()
    ap.add_argument("--tier", default=os.environ.get("VERIF_TIER", "quick"),
                    choices=["quick", "thorough"])
    ap.add_argument("--replay", default=None)
    ap.add_argument("--seed", type=int, default=None)
    ap.add_argument("--budget", type=float, default=None, help="wall budget in seconds")
    ap.add_argument("--selftest", default=None)
    a = ap.parse_args(argv)
    if a.seed is None:
        a.seed = int(os.environ.get("VERIF_SEED", "0"))
    if a.tier == "thorough":
        os.environ.setdefault("VERIF_HANG_FACTOR", "4")
    return a


def merge_counts(dst, src):
    for k, v in src.items():
        if isinstance(v, (int, float)):
            dst[k] = dst.get(k, 0) + v
    return dst


def ddmin_list(items, fails, max_runs=300):
    """Delta-debugging over a list: drop chunks, then single elements, as long
    as `fails(candidate)` stays true (same violation signature).  Used after
    Hypothesis' own shrinker, whose final example may belong to another
    signature than the one reported."""
    cur = list(items)
    runs = 0
    n = 2
    while len(cur) >= 2 and runs < max_runs:
        chunk = max(1, len(cur) // n)
        removed = False
        for i in range(0, len(cur), chunk):
            cand = cur[:i] + cur[i + chunk:]
            if not cand:
                continue
            runs += 1
            if fails(cand):
                cur = cand
                n = max(n - 1, 2)
                removed = True
                break
        if not removed:
            if chunk == 1:
                break
            n = min(len(cur), n * 2)
    return cur
