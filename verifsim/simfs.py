"""SimFS - in-memory file system with a journal of raw operations, a kill
switch and a fake clock, mounted under a virtual root by patching the Python
level entry points (builtins.open / io.open / os.*).

Crash model = process kill: every raw operation that has completed is durable,
data still in a Python-level buffer is lost, the raw write in flight may be
torn (applied for a prefix of its bytes).
"""
import builtins
import contextlib
import datetime as _datetime_mod
import errno
import io
import os
import stat as _stat

from . import sched
from .core import digest

_REAL = {
    "open": builtins.open, "io_open": io.open,
    "stat": os.stat, "lstat": os.lstat, "mkdir": os.mkdir, "listdir": os.listdir,
    "remove": os.remove, "unlink": os.unlink, "rename": os.rename,
    "replace": os.replace, "rmdir": os.rmdir, "scandir": os.scandir,
    "fsync": os.fsync, "access": os.access, "utime": os.utime, "chmod": os.chmod,
}
_REAL_DATETIME = _datetime_mod.datetime


TICKS = [0]      # seam operations performed in this process (1 simulated second each by default)


class SimKill(BaseException):
    """The simulated process is killed inside a raw file-system operation."""


def _err(code, path):
    return OSError(code, os.strerror(code), path)


class _DTMeta(type(_REAL_DATETIME)):
    def __instancecheck__(cls, inst):
        return isinstance(inst, _REAL_DATETIME)


class _Files:
    """Read-only mapping path -> bytearray over (path -> inode -> data)."""

    def __init__(self, fs):
        self._fs = fs

    def __contains__(self, p):
        return p in self._fs.ino_of

    def __iter__(self):
        return iter(self._fs.ino_of)

    def __len__(self):
        return len(self._fs.ino_of)

    def __getitem__(self, p):
        return self._fs.inodes[self._fs.ino_of[p]]

    def get(self, p, d=None):
        i = self._fs.ino_of.get(p)
        return d if i is None else self._fs.inodes[i]

    def keys(self):
        return self._fs.ino_of.keys()

    def items(self):
        return [(p, self._fs.inodes[i]) for p, i in self._fs.ino_of.items()]


class SimFS:
    MUTATING = ("mkdir", "creat", "trunc", "write", "close", "unlink", "rename", "rmdir")

    def __init__(self, root="/simfs", bufsize=8192, passthrough=(), clock_step=1.0):
        self.root = root.rstrip("/")
        self.dirs = {self.root}
        self.files = _Files(self)  # path -> bytearray (view over path -> inode -> data)
        self.ino_of = {}           # path -> inode number
        self.inodes = {}           # inode number -> bytearray (open handles follow the inode, not the path)
        self.next_ino = 1
        self.journal = []          # raw mutating operations (tuples)
        self.events = 0
        self.bufsize = bufsize
        self.passthrough = tuple(p.rstrip("/") for p in passthrough)
        self.kill_at = None        # journal index at which SimKill is raised
        self.torn = None           # bytes of the killed write that still reach the disk
        self.frozen = False
        self.record = True
        self.counts = {}
        self.clock = 0.0
        self.clock_step = clock_step
        self.trace = []
        self.keep_trace = False
        self.mutations_outside = []   # passthrough mutations (recorded, not journalled)

    # ---- helpers -----------------------------------------------------------
    def _mine(self, path):
        try:
            p = os.fspath(path)
        except TypeError:
            return None
        if isinstance(p, bytes):
            p = p.decode()
        if not isinstance(p, str):
            return None
        if not p.startswith("/"):
            p = os.path.join(os.getcwd(), p)
        p = os.path.normpath(p)
        if p == self.root or p.startswith(self.root + "/"):
            return p
        return None

    def _pass(self, path):
        try:
            p = os.path.abspath(os.fspath(path))
        except TypeError:
            return False
        return any(p == q or p.startswith(q + "/") for q in self.passthrough)

    def _rel(self, path):
        """Pass-through paths as they appear in traces: relative to the scratch
        prefix (which contains a pid and must not reach a digest)."""
        p = os.path.abspath(os.fspath(path))
        for q in self.passthrough:
            if p == q or p.startswith(q + "/"):
                return "<scratch>" + p[len(q):]
        return p

    def _tick(self, kind, *args):
        """Every seam operation: yield to the scheduler, advance the clock."""
        sim = sched.current_sim()
        if sim is not None:
            sim.stats["fs_ops"] += 1
            sim.park(None, f"fs:{kind}")
            sim.event("fs:" + kind, *[a for a in args if isinstance(a, (str, int))])
        self.events += 1
        TICKS[0] += 1
        self.clock += self.clock_step
        self.counts[kind] = self.counts.get(kind, 0) + 1
        if self.keep_trace:
            self.trace.append((kind,) + tuple(a if isinstance(a, (str, int)) else len(a) for a in args))

    def _journal(self, op):
        """Record + apply one raw mutating operation (or die in it)."""
        if self.frozen:
            return
        idx = len(self.journal)
        if self.kill_at is not None and idx == self.kill_at:
            if op[0] == "write" and self.torn:
                self._apply(("write", op[1], op[2], op[3][:self.torn], op[4]))
            self.frozen = True
            raise SimKill(f"killed in journal op #{idx} {op[0]}")
        if self.record:
            self.journal.append(op)
        self._apply(op)

    def _apply(self, op):
        k = op[0]
        if k == "mkdir":
            self.dirs.add(op[1])
        elif k == "rmdir":
            self.dirs.discard(op[1])
        elif k == "creat":
            path, ino = op[1], op[2]
            if self.ino_of.get(path) == ino:
                del self.inodes[ino][:]                 # O_TRUNC of the existing inode
            else:
                self.ino_of[path] = ino
                self.inodes[ino] = bytearray()
                self.next_ino = max(self.next_ino, ino + 1)
        elif k == "trunc":
            buf = self.inodes.get(op[3])
            if buf is not None:
                del buf[op[2]:]
        elif k == "write":
            buf = self.inodes.get(op[4])
            if buf is None:
                return
            off, data = op[2], op[3]
            if off > len(buf):
                buf.extend(b"\0" * (off - len(buf)))
            buf[off:off + len(data)] = data
        elif k == "unlink":
            self.ino_of.pop(op[1], None)              # the inode lives on for handles that are still open
        elif k == "rename":
            src, dst = op[1], op[2]
            if src in self.ino_of:
                self.ino_of[dst] = self.ino_of.pop(src)
            elif src in self.dirs:
                pre = src + "/"
                for d in sorted(self.dirs):
                    if d == src or d.startswith(pre):
                        self.dirs.discard(d)
                        self.dirs.add(dst + d[len(src):])
                for f in sorted(self.ino_of):
                    if f.startswith(pre):
                        self.ino_of[dst + f[len(src):]] = self.ino_of.pop(f)
        elif k == "close":
            pass
        else:
            raise ValueError(k)

    @classmethod
    def from_journal(cls, journal, upto, torn=None, **kw):
        """Durable state after a kill in front of journal op #upto (with `torn`
        bytes of that op - a write - still applied)."""
        fs = cls(**kw)
        fs.record = False
        for op in journal[:upto]:
            fs._apply(op)
        if torn and upto < len(journal) and journal[upto][0] == "write":
            op = journal[upto]
            fs._apply(("write", op[1], op[2], op[3][:torn], op[4]))
        fs.record = True
        return fs

    def clone(self):
        fs = SimFS(self.root, self.bufsize, self.passthrough, self.clock_step)
        fs.dirs = set(self.dirs)
        fs.ino_of = dict(self.ino_of)
        fs.inodes = {i: bytearray(self.inodes[i]) for i in set(self.ino_of.values())}
        fs.next_ino = self.next_ino
        return fs

    def state(self):
        return (sorted(self.dirs), sorted((k, bytes(v)) for k, v in self.files.items()))

    def state_digest(self):
        return digest(self.state())

    def listing(self):
        return {k[len(self.root):]: len(v) for k, v in sorted(self.files.items())}

    # ---- operations ----------------------------------------------------------
    def _parent_ok(self, p):
        par = os.path.dirname(p)
        if par not in self.dirs:
            if par in self.files:
                raise _err(errno.ENOTDIR, p)
            raise _err(errno.ENOENT, p)

    def open(self, p, mode="r", buffering=-1, encoding=None, errors=None, newline=None,
             closefd=True, opener=None):
        m = mode.replace("t", "")
        binary = "b" in m
        m = m.replace("b", "")
        plus = "+" in m
        m = m.replace("+", "")
        if m not in ("r", "w", "a", "x"):
            raise ValueError(f"invalid mode: {mode!r}")
        self._tick("open", p[len(self.root):], mode)
        if p in self.dirs:
            raise _err(errno.EISDIR, p)
        self._parent_ok(p)
        exists = p in self.files
        if m == "r":
            if not exists:
                raise _err(errno.ENOENT, p)
        elif m == "x":
            if exists:
                raise _err(errno.EEXIST, p)
            self._journal(("creat", p, self._new_ino()))
        elif m == "w":
            # create or truncate: one raw operation (O_CREAT|O_TRUNC); truncation keeps the inode
            self._journal(("creat", p, self.ino_of[p] if exists else self._new_ino()))
        elif m == "a":
            if not exists:
                self._journal(("creat", p, self._new_ino()))
        bufsize = self.bufsize
        if buffering == 0:
            bufsize = 0
        return SimFile(self, p, m, plus, binary, encoding or "utf-8", bufsize, mode)

    def _new_ino(self):
        i = self.next_ino
        self.next_ino += 1
        return i

    def stat(self, p):
        self._tick("stat", p[len(self.root):])
        if p in self.dirs:
            return os.stat_result((_stat.S_IFDIR | 0o755, 1, 1, 2, 0, 0, 4096, 0, 0, 0))
        if p in self.files:
            return os.stat_result((_stat.S_IFREG | 0o644, 1, 1, 1, 0, 0, len(self.files[p]), 0, 0, 0))
        par = os.path.dirname(p)
        if par in self.files:
            raise _err(errno.ENOTDIR, p)
        raise _err(errno.ENOENT, p)

    def mkdir(self, p, mode=0o777):
        self._tick("mkdir", p[len(self.root):])
        if p in self.dirs or p in self.files:
            raise _err(errno.EEXIST, p)
        self._parent_ok(p)
        self._journal(("mkdir", p))

    def rmdir(self, p):
        self._tick("rmdir", p[len(self.root):])
        if p not in self.dirs:
            raise _err(errno.ENOENT if p not in self.files else errno.ENOTDIR, p)
        pre = p + "/"
        if any(x.startswith(pre) for x in self.dirs) or any(x.startswith(pre) for x in self.files):
            raise _err(errno.ENOTEMPTY, p)
        self._journal(("rmdir", p))

    def listdir(self, p):
        self._tick("listdir", p[len(self.root):])
        if p not in self.dirs:
            raise _err(errno.ENOENT if p not in self.files else errno.ENOTDIR, p)
        pre = p + "/"
        names = set()
        for x in list(self.dirs) + list(self.files):
            if x.startswith(pre):
                names.add(x[len(pre):].split("/")[0])
        # deterministic but deliberately not sorted-by-name order: real
        # directory order is arbitrary, callers must not rely on it
        return sorted(names, key=lambda s: (digest(s), s))

    def unlink(self, p):
        self._tick("unlink", p[len(self.root):])
        if p in self.dirs:
            raise _err(errno.EISDIR, p)
        if p not in self.files:
            raise _err(errno.ENOENT, p)
        self._journal(("unlink", p))

    def rename(self, src, dst, replace=False):
        self._tick("rename", src[len(self.root):], dst[len(self.root):])
        if src not in self.files and src not in self.dirs:
            raise _err(errno.ENOENT, src)
        self._parent_ok(dst)
        if src in self.files and dst in self.dirs:
            raise _err(errno.EISDIR, dst)
        if src in self.dirs and dst in self.files:
            raise _err(errno.ENOTDIR, dst)
        self._journal(("rename", src, dst))     # POSIX rename replaces atomically


class SimFile:
    """Text or binary file object over SimFS with an emulated write buffer."""

    def __init__(self, fs, path, m, plus, binary, encoding, bufsize, mode):
        self._fs, self._path, self._m = fs, path, m
        self._binary, self._enc = binary, encoding
        self._readable = (m == "r") or plus
        self._writable = (m != "r") or plus
        self._append = (m == "a")
        self._bufsize = bufsize
        self._wbuf = bytearray()
        self._ino = fs.ino_of.get(path)
        self._pos = len(fs.inodes.get(self._ino, b"")) if m == "a" else 0
        self.closed = False
        self.name = path
        self.mode = mode

    # -- generic
    def __enter__(self):
        return self

    def __exit__(self, *a):
        self.close()
        return False

    def __iter__(self):
        return self

    def __next__(self):
        l = self.readline()
        if not l:
            raise StopIteration
        return l

    def readable(self):
        return self._readable

    def writable(self):
        return self._writable

    def seekable(self):
        return True

    def isatty(self):
        return False

    def fileno(self):
        raise io.UnsupportedOperation("fileno")

    def _check(self):
        if self.closed:
            raise ValueError("I/O operation on closed file.")

    def _data(self):
        d = self._fs.inodes.get(self._ino)
        return d if d is not None else bytearray()

    # -- writing
    def write(self, s):
        self._check()
        if not self._writable:
            raise io.UnsupportedOperation("not writable")
        if self._binary:
            b = bytes(s)
            n = len(b)
        else:
            if not isinstance(s, str):
                raise TypeError("write() argument must be str")
            b = s.encode(self._enc)
            n = len(s)
        self._wbuf += b
        if self._bufsize is not None and len(self._wbuf) > self._bufsize:
            self.flush()
        return n

    def writelines(self, lines):
        for l in lines:
            self.write(l)

    def flush(self):
        self._check()
        if self._wbuf:
            data = bytes(self._wbuf)
            self._wbuf = bytearray()
            off = len(self._data()) if self._append else self._pos
            self._fs._tick("write", self._path[len(self._fs.root):], len(data))
            self._fs._journal(("write", self._path, off, data, self._ino))
            self._pos = off + len(data)

    def truncate(self, size=None):
        self.flush()
        size = self._pos if size is None else size
        self._fs._tick("trunc", self._path[len(self._fs.root):], size)
        self._fs._journal(("trunc", self._path, size, self._ino))
        return size

    def close(self):
        if self.closed:
            return
        try:
            if self._writable:
                self.flush()
        finally:
            self.closed = True
        self._fs._tick("close", self._path[len(self._fs.root):])
        if self._writable:
            self._fs._journal(("close", self._path))

    # -- reading
    def _rb(self, n=-1):
        self._check()
        if not self._readable:
            raise io.UnsupportedOperation("not readable")
        if self._wbuf:
            self.flush()
        d = self._data()
        if n is None or n < 0:
            out = bytes(d[self._pos:])
        else:
            out = bytes(d[self._pos:self._pos + n])
        self._pos += len(out)
        return out

    def read(self, n=-1):
        self._fs._tick("read", self._path[len(self._fs.root):])
        b = self._rb(n)
        return b if self._binary else b.decode(self._enc)

    def read1(self, n=-1):
        return self.read(n)

    def readinto(self, buf):
        b = self._rb(len(buf))
        buf[:len(b)] = b
        return len(b)

    def peek(self, n=0):
        d = self._data()
        return bytes(d[self._pos:self._pos + max(n, 1)])

    def readline(self, limit=-1):
        self._check()
        d = self._data()
        i = d.find(b"\n", self._pos)
        end = len(d) if i < 0 else i + 1
        if limit is not None and limit >= 0:
            end = min(end, self._pos + limit)
        out = bytes(d[self._pos:end])
        self._pos = end
        return out if self._binary else out.decode(self._enc)

    def readlines(self, hint=-1):
        return list(self)

    def seek(self, off, whence=0):
        self._check()
        if self._wbuf:
            self.flush()
        if whence == 0:
            self._pos = off
        elif whence == 1:
            self._pos += off
        else:
            self._pos = len(self._data()) + off
        return self._pos

    def tell(self):
        return self._pos + len(self._wbuf)


# --------------------------------------------------------------------------
# mounting
# --------------------------------------------------------------------------
_ACTIVE = []


def active():
    return _ACTIVE[-1] if _ACTIVE else None


def _route(name, simname=None, nargs=1, mut=False):
    real = _REAL[name]

    def f(path=".", *a, **k):
        fs = active()
        if fs is not None and not isinstance(path, int):
            p = fs._mine(path)
            if p is not None:
                return getattr(fs, simname or name)(p, *a, **{kk: vv for kk, vv in k.items() if kk != "dir_fd" and kk != "follow_symlinks"})
            if fs._pass(path):
                fs._tick("real:" + name, fs._rel(path))
                if mut:
                    fs.mutations_outside.append((name, os.fspath(path)))
        return real(path, *a, **k)
    f.__name__ = name
    return f


def _open(file, mode="r", *a, **k):
    fs = active()
    if fs is not None and not isinstance(file, int):
        p = fs._mine(file)
        if p is not None:
            return fs.open(p, mode, *a, **k)
        if fs._pass(file):
            fs._tick("real:open", fs._rel(file), mode)
            if mode.strip("bt") != "r":
                fs.mutations_outside.append(("open", os.fspath(file), mode))
    return _REAL["open"](file, mode, *a, **k)


def _rename(src, dst, *a, **k):
    fs = active()
    if fs is not None:
        ps, pd = fs._mine(src), fs._mine(dst)
        if ps is not None and pd is not None:
            return fs.rename(ps, pd)
        if (ps is None) != (pd is None):
            raise _err(errno.EXDEV, os.fspath(src))
        if fs._pass(src):
            fs._tick("real:rename", fs._rel(src))
            fs.mutations_outside.append(("rename", os.fspath(src), os.fspath(dst)))
    return _REAL["rename"](src, dst, *a, **k)


def _unlink(path, *a, **k):
    fs = active()
    if fs is not None:
        p = fs._mine(path)
        if p is not None:
            return fs.unlink(p)
        if fs._pass(path):
            fs._tick("real:unlink", fs._rel(path))
            fs.mutations_outside.append(("unlink", os.fspath(path)))
    return _REAL["unlink"](path, *a, **k)


def _fsync(fd):
    if isinstance(fd, SimFile) or hasattr(fd, "_fs"):
        return None
    return _REAL["fsync"](fd)


def _scandir(path="."):
    fs = active()
    if fs is not None and not isinstance(path, int):
        p = fs._mine(path)
        if p is not None:
            raise NotImplementedError("scandir on SimFS")
    return _REAL["scandir"](path)


def _access(path, mode, *a, **k):
    fs = active()
    if fs is not None and not isinstance(path, int):
        p = fs._mine(path)
        if p is not None:
            return p in fs.files or p in fs.dirs
    return _REAL["access"](path, mode, *a, **k)


class _FakeDatetime(_REAL_DATETIME, metaclass=_DTMeta):
    @classmethod
    def now(cls, tz=None):
        fs = active()
        t = fs.clock if fs is not None else 0.0
        return _REAL_DATETIME(2030, 1, 1, tzinfo=tz) + _datetime_mod.timedelta(seconds=t)

    @classmethod
    def utcnow(cls):
        return cls.now()


@contextlib.contextmanager
def mounted(fs, fake_clock=True):
    """Patch the Python-level file-system entry points while the block runs."""
    patches = [
        (builtins, "open", _open), (io, "open", _open),
        (os, "stat", _route("stat")), (os, "lstat", _route("lstat", "stat")),
        (os, "mkdir", _route("mkdir", mut=True)), (os, "listdir", _route("listdir")),
        (os, "remove", _unlink), (os, "unlink", _unlink),
        (os, "rename", _rename), (os, "replace", _rename),
        (os, "rmdir", _route("rmdir", mut=True)), (os, "scandir", _scandir),
        (os, "fsync", _fsync), (os, "access", _access),
    ]
    if fake_clock:
        patches.append((_datetime_mod, "datetime", _FakeDatetime))
    # names bound by `from os import replace` etc. inside nifty modules would
    # bypass the module-attribute seam: re-bind those as well
    import sys
    real2new = {}
    for m, a, f in patches:
        if m in (os, builtins, io):
            real2new[id(getattr(m, a))] = (getattr(m, a), f)
    for name, mod in sorted(sys.modules.items()):
        if not name.startswith("nifty") or mod is None:
            continue
        for a, obj in list(vars(mod).items()):
            hit = real2new.get(id(obj))
            if hit is not None and hit[0] is obj:
                patches.append((mod, a, hit[1]))
    saved = [(m, a, getattr(m, a)) for m, a, _ in patches]
    _ACTIVE.append(fs)
    try:
        for m, a, f in patches:
            setattr(m, a, f)
        yield fs
    finally:
        for m, a, f in saved:
            setattr(m, a, f)
        _ACTIVE.pop()
