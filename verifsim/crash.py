"""Journal cuts: enumerate kill points of a recorded run."""
import os

from .simfs import SimFS


def op_name(op, root):
    """'kind:basename' - the minimal identity of a raw operation."""
    return f"{op[0]}:{os.path.basename(op[1])}"


def cuts(journal, rng, torn_per_write=3):
    """All kill points: (k, torn) = killed in front of journal op #k with `torn`
    bytes of it (a write) still reaching the disk; k == len(journal): killed
    after the last operation."""
    out = [(k, None) for k in range(len(journal) + 1)]
    for k, op in enumerate(journal):
        if op[0] == "write" and len(op[3]) > 1:
            n = len(op[3])
            lens = {1, n - 1}
            for _ in range(max(0, torn_per_write - 2)):
                lens.add(rng.randrange(1, n))
            out.extend((k, t) for t in sorted(lens))
    return out


def window(journal, k, torn, root):
    """Name of the crash window: which raw op the kill follows / tears."""
    if torn:
        return "torn-" + op_name(journal[k], root)
    if k == 0:
        return "before-first-op"
    return "after-" + op_name(journal[k - 1], root)


def insitu_state(run_fn, root, bufsize, k, torn):
    """Re-run `run_fn(fs)` and really raise SimKill inside journal op #k; return
    the frozen file-system state (cross-validates the journal-cut shortcut)."""
    from .simfs import SimKill, mounted
    fs = SimFS(root, bufsize=bufsize)
    fs.kill_at, fs.torn = k, torn
    killed = False
    with mounted(fs):
        try:
            run_fn(fs)
        except SimKill:
            killed = True
    return killed, fs.state_digest()
