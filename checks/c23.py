"""C23 - distributed summation is partition-independent and cannot deadlock.

Real code: nifty.cl.utilities.allreduce_sum/_send/_recv/_bcast on every rank of
a SimComm.  Enumerated: all ordered partitions of n<=8 summands over k<=4 tasks
(empty tasks included).  Sampled (deciding step): schedules and send semantics.
"""
import itertools
import json
import math
import random

import numpy as np

from verifsim import core, harness, sched

PROP = "C23"
STYPES = ["sym", "float", "list", "ndarray", "ndarray_nc", "ndarray_f", "ndarray_0d", "ndarray_mixed", "field", "multifield",
          "tuple", "str", "ndarray_empty", "pyint", "field_f2d"]


class Sym:
    """A summand whose `+` builds the expression tree."""
    __slots__ = ("t",)

    def __init__(self, t):
        self.t = t

    def __add__(self, o):
        if not isinstance(o, Sym):
            return NotImplemented
        return Sym((self.t, o.t))

    def __eq__(self, o):
        return isinstance(o, Sym) and self.t == o.t

    def __hash__(self):
        return hash(("Sym", self.t))

    def __reduce__(self):
        return (Sym, (self.t,))

    def __repr__(self):
        return f"Sym({self.t})"


def leaves(t):
    return [t] if not isinstance(t, tuple) else leaves(t[0]) + leaves(t[1])


def depth(t):
    return 0 if not isinstance(t, tuple) else 1 + max(depth(t[0]), depth(t[1]))


def compositions(n, k):
    """All ordered k-tuples of non-negative ints summing to n."""
    if k == 1:
        yield (n,)
        return
    for first in range(n + 1):
        for rest in compositions(n - first, k - 1):
            yield (first,) + rest


def summands(n, stype):
    import nifty.cl as ift
    rng = np.random.default_rng(core.h64("c23-summands", n, stype) % (2**32))
    if stype == "sym":
        return [Sym(i) for i in range(n)]
    if stype == "float":
        return [np.float64(rng.uniform(0.5, 1.5) * 10.0 ** rng.integers(-9, 9)) for _ in range(n)]
    if stype == "list":
        return [[i] for i in range(n)]
    if stype == "ndarray":
        return [rng.uniform(0.5, 1.5, (2, 3)) * 10.0 ** rng.integers(-9, 9, (2, 3)) for _ in range(n)]
    if stype == "ndarray_nc":
        out = []
        for i in range(n):
            base = rng.uniform(0.5, 1.5, (4, 6)) * 10.0 ** rng.integers(-9, 9, (4, 6))
            out.append(base[::2, ::2] if i % 2 == 0 else base.T[:2, :3])
        return out
    if stype == "ndarray_0d":
        return [np.array(rng.uniform(0.5, 1.5) * 10.0 ** rng.integers(-9, 9)) for _ in range(n)]
    if stype == "tuple":
        return [(i, f"t{i}") for i in range(n)]          # concatenation, like the lists the driver gathers reports with
    if stype == "str":
        return [f"<{i}>" for i in range(n)]
    if stype == "pyint":
        return [int(rng.integers(1, 2**40)) * 3 ** int(rng.integers(0, 60)) for _ in range(n)]   # exact big integers
    if stype == "ndarray_empty":
        return [np.zeros((0, 3)) for _ in range(n)]       # zero-size buffers through Send/Recv/Bcast
    if stype == "ndarray_mixed":
        # summands of different numpy dtypes: every partial sum has numpy's promoted dtype
        dts = [np.float64, np.float32, np.int64, np.complex128, np.float32, np.float64, np.int32, np.float32]
        out = []
        for i in range(n):
            a = rng.uniform(0.5, 1.5, (2, 3)) * 10.0 ** rng.integers(-3, 4, (2, 3))
            out.append((a * 100).astype(dts[i % len(dts)]))
        return out
    if stype == "ndarray_f":
        return [np.asfortranarray(rng.uniform(0.5, 1.5, (2, 3)) * 10.0 ** rng.integers(-9, 9, (2, 3)))
                for _ in range(n)]
    if stype == "field_f2d":
        # fields over a 2-d domain whose values are Fortran-ordered in memory (legal: a Field keeps the array it is given)
        d2 = ift.RGSpace((2, 3))
        return [ift.makeField(d2, np.asfortranarray(rng.uniform(0.5, 1.5, (2, 3)) * 10.0 ** rng.integers(-9, 9, (2, 3))))
                for _ in range(n)]
    dom = ift.RGSpace(5)
    if stype == "field":
        return [ift.makeField(dom, rng.uniform(0.5, 1.5, 5) * 10.0 ** rng.integers(-9, 9, 5))
                for _ in range(n)]
    if stype == "multifield":
        mdom = ift.makeDomain({"a": dom, "b": ift.UnstructuredDomain(2)})
        out = []
        for _ in range(n):
            out.append(ift.MultiField.from_raw(mdom, {
                "a": rng.uniform(0.5, 1.5, 5) * 10.0 ** rng.integers(-9, 9, 5),
                "b": rng.uniform(0.5, 1.5, 2) * 10.0 ** rng.integers(-9, 9, 2)}))
        return out
    raise ValueError(stype)


def canon_val(v):
    if isinstance(v, Sym):
        return ("Sym", repr(v.t))
    return v


def run_case(case):
    """One simulated execution.  Returns a small result dict."""
    from nifty.cl.utilities import allreduce_sum
    part = case["partition"]
    n, k = sum(part), len(part)
    vals = summands(n, case["stype"])
    ref = allreduce_sum(list(vals), None)
    bounds = [0] + list(itertools.accumulate(part))

    def script(comm):
        r = comm.Get_rank()
        return allreduce_sum(vals[bounds[r]:bounds[r + 1]], comm)

    out = sched.simulate(script, k, case["sched"], case["sem"], step_cap=20000)
    sig = None
    detail = ""
    probs = out.problems()
    if probs:
        p = next((q for q in probs if q.startswith("rank")), probs[0])   # root cause first
        sig = {"oracle": p.split(":")[0] if not p.startswith("rank") else "rank-raised:" + p.split(":")[1]}
        detail = "; ".join(probs)
        for e in out.exc:
            if e is not None:
                detail += f" | {type(e).__name__}: {e}"
    else:
        refd = core.digest(canon_val(ref))
        for r in range(k):
            if core.digest(canon_val(out.results[r])) != refd:
                sig = {"oracle": "value-differs-from-single-process"}
                detail = f"rank {r}: {canon_val(out.results[r])!r} != {canon_val(ref)!r}"[:400]
                break
        if sig is None and case["stype"] == "sym":
            t = out.results[0].t
            if leaves(t) != list(range(n)):
                sig = {"oracle": "leaf-order"}
                detail = repr(t)
            elif depth(t) != (0 if n == 1 else math.ceil(math.log2(n))):
                sig = {"oracle": "not-a-balanced-pairwise-tree"}
                detail = repr(t)
        if sig is None:
            lo = out.leftover
            if lo["buffered_messages"] or lo["posted_receives"] or len(set(lo["collective_counts"])) != 1:
                sig = {"oracle": "conservation"}
                detail = json.dumps(lo)
    ps, ss = sched.explicit_specs(out)
    res = {"sig": sig, "detail": detail, "trace_digest": out.trace_digest,
           "steps": out.steps, "stats": out.stats,
           "multi": out.stats["multi_enabled_steps"],
           "nmsg": out.stats["send_eager"] + out.stats["send_rendezvous"]}
    if sig is not None:
        res["explicit"] = {"partition": list(part), "stype": case["stype"], "sched": ps, "sem": ss}
    if case.get("want_trace"):
        res["trace"] = [list(map(str, e)) for e in out.trace]
        res["result"] = repr(canon_val(out.results[0]))[:300]
    return res


def cases_for(tier, seed):
    parts = [p for n in range(1, 9) for k in range(1, 5) for p in compositions(n, k)]
    cases = []
    nsched = 4 if tier == "quick" else 64
    for pi, p in enumerate(parts):
        for st in STYPES:
            base = {"partition": list(p), "stype": st}
            rs = core.h64(seed, "c23", pi, st)
            plan = [({"kind": "low"}, {"mode": "rendezvous"}),
                    ({"kind": "high"}, {"mode": "rendezvous"})]
            for j in range(nsched):
                plan.append(({"kind": "seeded", "seed": core.h64(rs, "sched", j)}, {"mode": "rendezvous"}))
            for j in range(max(1, nsched // 2)):
                plan.append(({"kind": "seeded", "seed": core.h64(rs, "sched-e", j)}, {"mode": "eager"}))
                plan.append(({"kind": "seeded", "seed": core.h64(rs, "sched-m", j)},
                             {"mode": "mixed", "seed": core.h64(rs, "sem", j)}))
            for s, m in plan:
                cases.append(dict(base, sched=s, sem=m))
    if tier == "thorough":
        rng = random.Random(core.h64(seed, "c23-large"))
        for j in range(40000):
            n = rng.randrange(9, 17)
            k = rng.randrange(2, 7)
            cuts = sorted(rng.randrange(0, n + 1) for _ in range(k - 1))
            p = [b - a for a, b in zip([0] + cuts, cuts + [n])]
            mode = rng.choice(["rendezvous", "rendezvous", "eager", "mixed"])
            sem = {"mode": mode} if mode != "mixed" else {"mode": "mixed", "seed": rng.getrandbits(48)}
            cases.append({"partition": p, "stype": rng.choice(STYPES),
                          "sched": {"kind": "seeded", "seed": rng.getrandbits(48)}, "sem": sem})
    return cases, len(parts)


def minimise(explicit, sig):
    """Greedy shrink, accepting a candidate only if the same signature recurs."""
    def fails(c):
        r = run_case(c)
        return r["sig"] == sig, r

    cur = dict(explicit)
    # lenient replay so that candidates with a different shape still run
    cur["sched"] = dict(cur["sched"], strict=False)
    ok, _ = fails(cur)
    if not ok:
        return explicit
    # 1. simpler summand type
    for st in ["sym", "float"]:
        if cur["stype"] != st:
            c = dict(cur, stype=st)
            if fails(c)[0]:
                cur = c
                break
    # 2. default schedule
    for s in [{"kind": "low"}]:
        c = dict(cur, sched=s)
        if fails(c)[0]:
            cur = c
    # 3. fewer rendezvous choices
    if cur["sem"]["mode"] == "table":
        keys = sorted(cur["sem"]["table"])
        for kk in keys:
            t = dict(cur["sem"]["table"])
            t.pop(kk, None)
            c = dict(cur, sem={"mode": "table", "table": t})
            if fails(c)[0]:
                cur = c
    # 4. smaller partition: drop ranks / summands
    changed = True
    while changed:
        changed = False
        p = cur["partition"]
        cands = []
        for i in range(len(p)):
            if len(p) > 1:
                cands.append(p[:i] + p[i + 1:])
            if p[i] > 0:
                cands.append(p[:i] + [p[i] - 1] + p[i + 1:])
        for q in cands:
            if sum(q) < 1:
                continue
            c = dict(cur, partition=q)
            if cur["sem"]["mode"] == "table":
                pass
            if fails(c)[0]:
                cur = c
                changed = True
                break
    # re-record the exact schedule of the minimised case
    ok, r = fails(cur)
    if ok and "explicit" in r:
        return r["explicit"]
    return explicit


def replay(path):
    with open(path) as f:
        rep = json.load(f)
    case = rep["case"]
    r = run_case(dict(case, want_trace=True))
    print("replay signature:", json.dumps(r["sig"], sort_keys=True), "| recorded:",
          json.dumps(rep["signature"], sort_keys=True))
    print("detail:", r["detail"])
    if r["sig"] == rep["signature"]:
        print(f"VIOLATION property={PROP} replay={path}")
        return harness.EXIT_VIOLATION
    if r["sig"] is None:
        print("replay: property holds on this tree for the recorded case")
        return harness.EXIT_OK
    print(f"VIOLATION property={PROP} replay={path}  (different signature)")
    return harness.EXIT_VIOLATION


def main(argv):
    a = harness.parse_args(argv)
    if a.replay:
        return replay(a.replay)
    rep = harness.Report(PROP, a.tier, a.seed, "exploration")
    cases, nparts = cases_for(a.tier, a.seed)
    results = harness.pmap(run_case, cases, chunk=200, hang_s=300)
    stats = {}
    digests = set()
    nontrivial = set()
    bysem = {}
    interleavings = {}
    failures = {}
    for c, r in zip(cases, results):
        if r is None:
            continue
        if "harness_error" in r:
            rep.harness_error(r["harness_error"] + " " + r.get("case", ""))
            continue
        harness.merge_counts(stats, r["stats"])
        digests.add(r["trace_digest"])
        if r["nmsg"] > 0 and len(c["partition"]) > 1:
            nontrivial.add(r["trace_digest"])
        bysem[c["sem"]["mode"]] = bysem.get(c["sem"]["mode"], 0) + 1
        key = (tuple(c["partition"]), c["stype"], c["sem"]["mode"])
        interleavings.setdefault(key, set()).add(r["trace_digest"])
        if r["sig"] is not None:
            k = json.dumps(r["sig"], sort_keys=True)
            failures.setdefault(k, []).append(r)
    for k, rs in sorted(failures.items()):
        r = min(rs, key=lambda x: (sum(x["explicit"]["partition"]), len(x["explicit"]["partition"])))
        ex = minimise(r["explicit"], r["sig"])
        for _ in rs:
            rep.violation(r["sig"], {"engine": "mpisim/c23", "case": ex, "detail": r["detail"],
                                     "replay_cmd": f"./check {PROP} --replay <this file>"})
    sample_cases = [dict(cases[i], want_trace=True) for i in (len(cases) // 3, len(cases) // 2)]
    samples = []
    for sc in sample_cases:
        r = run_case(sc)
        samples.append({"case": {k: v for k, v in sc.items() if k != "want_trace"},
                        "steps": r["steps"], "result": r.get("result"),
                        "trace": r.get("trace", [])[:60]})
    multi = [len(v) for v in interleavings.values()]
    cov = {
        "evaluations": sum(1 for r in results if r is not None),
        "distinct_nontrivial": len(nontrivial),
        "rule": "one evaluation = one simulated execution of the real allreduce_sum on k thread-ranks for one "
                "(ordered partition, summand type, send semantics, schedule); distinct = distinct trace digest "
                "(sequence of seam events with rank, kind, peer, semantics); non-trivial = at least two ranks and "
                "at least one point-to-point message",
        "samples": samples,
        "partitions_enumerated": nparts,
        "partition_space": "all ordered partitions of n=1..8 over k=1..4 tasks incl. empty tasks (710)"
                           + ("; plus 40000 sampled with n<=16, k<=6" if a.tier == "thorough" else ""),
        "exhaustive": False,
        "runs_by_semantics": bysem,
        "fault_kinds_fired": {k: stats.get(k, 0) for k in
                              ["send_rendezvous", "rendezvous_blocked", "send_eager", "recv_blocked",
                               "bcast_root_early", "bcast_root_wait", "Send", "Recv"]},
        "scheduler_steps": stats.get("handoffs", 0),
        "steps_with_choice": stats.get("multi_enabled_steps", 0),
        "distinct_traces_total": len(digests),
        "max_distinct_interleavings_per_(partition,type,semantics)": max(multi) if multi else 0,
        "real_components": ["nifty.cl.utilities.allreduce_sum/_send/_recv/_bcast", "Field/MultiField arithmetic and pickling"],
        "stub_components": ["SimComm (mpi4py subset written from the MPI standard)", "thread-rank scheduler"],
    }
    return rep.finish(cov, assumptions=[
        "SimComm models MPI-3.1 blocking standard-mode send (eager or rendezvous per message), named-source "
        "recv, non-overtaking per ordered pair, and collectives entered in the same order by all ranks",
        "between two seam calls a rank touches only rank-local state (RNG stack swapped at every hand-off)"])
