"""C22 - classic VI results do not depend on the number of MPI tasks.

Real code on every simulated rank: shareRange, allreduce_sum, draw_samples,
SampledKLEnergy, SampleList/ResidualSampleList statistics, StochasticEnergyAdapter,
optimize_kl.  Reference: the same script with comm=None in the same process.
"""
import functools
import json
import os
import random
import re
import shutil

import numpy as np

from verifsim import core, harness, sched, simfs

PROP = "C22"
ROOT = "/simfs/c22"
_PRISTINE = None


def reset_globals():
    global _PRISTINE
    import pickle
    import nifty.cl as ift
    from nifty.cl.minimization import optimize_kl as okl
    if _PRISTINE is None:
        _PRISTINE = pickle.dumps(([np.random.SeedSequence(42)],
                                  [np.random.default_rng(np.random.SeedSequence(42))]))
    ift.random.setState(_PRISTINE)
    okl._output_directory = None
    okl._save_strategy = None


def scratch_dir():
    return f"/dev/shm/verif-c22-{os.getpid()}"


def make_fs(p):
    """(SimFS, output directory).  Runs that export HDF5 files write to a real
    tmpfs directory behind the recording pass-through layer (h5py writes from
    C); all other runs use the in-memory file system."""
    if p.get("export"):
        sc = scratch_dir()
        shutil.rmtree(sc, ignore_errors=True)
        os.makedirs(sc)
        return simfs.SimFS("/simfs/c22-unused", passthrough=(sc,)), sc + "/out"
    return simfs.SimFS(ROOT), ROOT + "/out"


def odir_of(p):
    return (scratch_dir() if p.get("export") else ROOT) + "/out"


def _h5_content(path):
    import h5py
    out = {}
    with h5py.File(path, "r") as f:
        def visit(name, g):
            if isinstance(g, h5py.Dataset):
                out[name] = np.array(g)
        f.visititems(visit)
    return out


def _file_digest(name, b):
    """Canonical, task-count independent content of one output file (None: the
    file is task-count dependent by design and not compared)."""
    import pickle
    if name == "counting_report.txt":          # one section per task
        return None
    if name.endswith(".txt"):
        txt = b.decode()
        return core.digest([l for l in txt.splitlines() if not l.startswith("Current datetime:")])
    if name in ("last_finished_iteration", "nifty_random_state"):
        return core.digest(b)
    try:
        return core.digest(pickle.loads(b))
    except Exception:
        return core.digest(b)


def file_contents(fs, p):
    out = {}
    if p.get("export"):
        top = scratch_dir()
        for d, _, names in sorted(os.walk(top)):
            for nm in sorted(names):
                full = os.path.join(d, nm)
                rel = full[len(top):]
                if nm.endswith(".hdf5"):
                    out[rel] = core.digest(_h5_content(full))
                else:
                    with open(full, "rb") as f:
                        dg = _file_digest(nm, f.read())
                    if dg is not None:
                        out[rel] = dg
        return out
    for path, data in sorted(fs.files.items()):
        dg = _file_digest(os.path.basename(path), bytes(data))
        if dg is not None:
            out[path[len(fs.root):]] = dg
    return out


def comps(d):
    """dict of named results -> dict of digests."""
    return {k: core.digest(v) for k, v in d.items()}


# --------------------------------------------------------------------------
# scripts: f(params) -> (callable(comm) -> dict name->digest)
# --------------------------------------------------------------------------
def _vals(rng, shape):
    return rng.uniform(0.5, 1.5, shape) * 10.0 ** rng.integers(-6, 6, shape)


def script_w1(p):
    """Sample lists: n_samples, iterator, average, _average_2tuple, sample_stat."""
    import nifty.cl as ift
    rng = np.random.default_rng(p["dataseed"])
    dom = ift.RGSpace(4) if p["ftype"] != "field2d_f" else ift.RGSpace((2, 3))
    mdom = ift.makeDomain({"a": dom, "b": ift.UnstructuredDomain(2)})
    m = p["m"]

    def mk(d):
        if d is dom and p["ftype"] == "field2d_f":
            # 2-d values that are Fortran-ordered in memory (a Field keeps the array it is given)
            return ift.makeField(dom, np.asfortranarray(_vals(rng, (2, 3))))
        if d is dom:
            return ift.makeField(dom, _vals(rng, 4))
        return ift.MultiField.from_raw(d, {k: _vals(rng, d[k].shape) for k in d.keys()})
    D = dom if p["ftype"] in ("field", "field2d_f") else mdom
    mean = mk(D)
    if p["kind"] == "plain":
        items = [mk(D) for _ in range(m)]
    else:
        rdom = D
        if p.get("subdomain") and D is mdom:
            rdom = ift.makeDomain({"a": dom})
        items = [mk(rdom) for _ in range(m)]
        negs = [bool(rng.integers(0, 2)) for _ in range(m)]
    if p["op"] == "lin":
        op = ift.ScalingOperator(D, 3.7)
    elif p["op"] == "nonlin":
        op = ift.ScalingOperator(D, 0.3).exp() if D is dom else \
            (ift.FieldAdapter(dom, "a").exp() * 2.0)
    else:
        op = None

    def run(comm):
        from nifty.cl.utilities import shareRange, get_MPI_params_from_comm
        n, r, _ = get_MPI_params_from_comm(comm)
        if p["partition"] is None or comm is None:
            lo, hi = shareRange(m, n, r)
        else:
            b = [0] + list(np.cumsum(p["partition"]))
            lo, hi = int(b[r]), int(b[r + 1])
        if p["kind"] == "plain":
            sl = ift.SampleList(items[lo:hi], comm=comm, domain=D)
        else:
            sl = ift.ResidualSampleList(mean, items[lo:hi], negs[lo:hi], comm=comm)
        out = {"n_samples": sl.n_samples, "iterator": list(sl.iterator()),
               "iterator_op": list(sl.iterator(op)), "average": sl.average(op)}
        if m > 0:
            out["sample_stat"] = list(sl.sample_stat(op))
        f2 = (lambda x: (x.s_sum() if hasattr(x, "s_sum") else 0., x))
        out["average_2tuple"] = list(sl._average_2tuple(f2))
        if p["kind"] == "residual":
            sl2 = sl.at(mean * 2.0)
            out["at.average"] = sl2.average(op)
        return comps(out)
    return run


def _lh(model):
    import nifty.cl as ift
    if model == "nl3":
        dom = ift.UnstructuredDomain(3)
        a, b, c = (ift.FieldAdapter(dom, k) for k in "abc")
        op = a * (0.3 * b).exp() + c
        d = ift.makeField(dom, np.array([0.3, -1.2, 2.0]))
    else:
        dom = ift.RGSpace(4)
        a, b = (ift.FieldAdapter(dom, k) for k in "ab")
        op = 2.0 * a + b
        d = ift.makeField(dom, np.array([0.7, -0.4, 1.1, 0.2]))
    icov = ift.ScalingOperator(dom, 4., sampling_dtype=float)
    return ift.GaussianEnergy(d, inverse_covariance=icov) @ op


def script_w2(p):
    """SampledKLEnergy: value, gradient, metric, samples, at()."""
    import nifty.cl as ift

    def run(comm):
        reset_rng_only()
        lh = _lh(p["model"])
        ic = ift.AbsDeltaEnergyController(1e-8, iteration_limit=12)
        ham = ift.StandardHamiltonian(lh, ic, prior_sampling_dtype=float)
        with ift.random.Context(p["posseed"]):
            pos = ift.from_random(ham.domain) * 0.3
            x = ift.from_random(ham.domain)
            pos2 = ift.from_random(ham.domain) * 0.2
        # napprox >= 2: the sampling minimiser itself draws random numbers (randomised preconditioner)
        mini = ift.NewtonCG(ift.AbsDeltaEnergyController(1e-6, iteration_limit=2),
                            napprox=p.get("napprox", 0)) if p["geovi"] else None
        kl = ift.SampledKLEnergy(pos, ham, p["n_samples"], mini, mirror_samples=p["mirror"],
                                 constants=list(p["constants"]), point_estimates=list(p["point_estimates"]),
                                 napprox=p.get("kl_napprox", 0), comm=comm)
        out = {"value": kl.value, "gradient": kl.gradient,
               "samples": list(kl.samples.iterator()), "n_samples": kl.samples.n_samples}
        xx = x.extract(kl.position.domain)
        out["apply_metric"] = kl.apply_metric(xx)
        kl2 = kl.at(pos2.extract(kl.position.domain))
        out["at.value"] = kl2.value
        out["at.gradient"] = kl2.gradient
        out["at.samples"] = list(kl2.samples.iterator())
        out["sample_stat"] = list(kl.samples.sample_stat(None))
        return comps(out)
    return run


def script_w3(p):
    """StochasticEnergyAdapter.make: value, gradient, metric."""
    import nifty.cl as ift

    def run(comm):
        reset_rng_only()
        op = _lh("nl3")
        dom = ift.UnstructuredDomain(3)
        pdom = ift.makeDomain({"a": dom, "c": dom})
        with ift.random.Context(p["posseed"]):
            pos = ift.from_random(pdom) * 0.5
            x = ift.from_random(pdom)
        e = ift.StochasticEnergyAdapter.make(pos, op, ["b"], p["n_samples"], p["mirror"], comm=comm)
        out = {"value": e.value, "gradient": e.gradient, "apply_metric": e.apply_metric(x),
               "at.value": e.at(pos * 0.5).value}
        return comps(out)
    return run


def reset_rng_only():
    # every rank starts its script from the same RNG state, like `mpirun python script.py`
    pass


def script_w4(p, phase=None):
    """Full optimize_kl runs incl. output directory on the simulated disk.
    phase='first': stop after iteration p['stop_at'] (terminate_callback);
    phase='resume': continue an interrupted run with resume=True."""
    import nifty.cl as ift

    def run(comm):
        lh = _lh(p["model"])
        ic = ift.AbsDeltaEnergyController(1e-6, iteration_limit=10)
        mini = ift.NewtonCG(ift.AbsDeltaEnergyController(1e-6, iteration_limit=3))
        ns = p["n_samples"]
        kw = {}
        if p["geovi"]:
            kw["nonlinear_sampling_minimizer"] = ift.NewtonCG(ift.AbsDeltaEnergyController(1e-6, iteration_limit=2),
                                                              napprox=p.get("napprox", 0))
        if p["constants"] == "callable":
            kw["constants"] = lambda i: ["a"] if i == 0 else []
        elif p["constants"]:
            kw["constants"] = list(p["constants"])
        if p["point_estimates"] == "callable":
            kw["point_estimates"] = lambda i: [] if i == 0 else ["b"]
        elif p["point_estimates"]:
            kw["point_estimates"] = list(p["point_estimates"])
        seen = []
        if p.get("transitions"):
            kw["transitions"] = lambda i: None if i == 0 else (lambda sl: sl.average())
        if p.get("fresh") == "only0":
            kw["fresh_stochasticity"] = lambda i: i == 0
        elif p.get("fresh") == "alt":
            kw["fresh_stochasticity"] = lambda i: i % 2 == 0
        if p.get("export"):
            sky = ift.FieldAdapter(lh.domain["a"], "a").exp()
            kw["export_operator_outputs"] = {
                "sky": sky, "ab": ift.FieldAdapter(lh.domain["a"], "a") + ift.FieldAdapter(lh.domain["b"], "b")}
        if phase == "first":
            kw["terminate_callback"] = lambda i: i == p["stop_at"]
        if phase == "resume":
            kw["resume"] = True
        odir = odir_of(p) if p["odir"] else None
        sl, mean = ift.optimize_kl(
            lh, p["nit"], (lambda i: (ns["a"] if i < ns["at"] else ns["b"])) if isinstance(ns, dict) else ns,
            mini, ic, output_directory=odir, save_strategy=p["strategy"],
            plot_energy_history=False, plot_minisanity_history=False, return_final_position=True,
            comm=(lambda i: comm) if p.get("comm_callable") else comm,
            inspect_callback=lambda s, i: seen.append((i, s.n_samples)), **kw)
        out = {"samples": list(sl.iterator()), "n_samples": sl.n_samples, "mean": mean}
        if phase is None:
            out["callback"] = seen
        if phase == "first":
            return comps(out)
        out["sample_stat"] = list(sl.sample_stat(None))
        if odir is not None:
            base = odir + "/pickle/" + ("latest" if p["strategy"] == "latest" else f"iteration_{p['nit'] - 1}")
            if os.path.isfile(base + ".mean.pickle"):
                sl2 = ift.ResidualSampleList.load(base, comm=comm)
            else:
                sl2 = ift.SampleList.load(base, comm=comm)
            out["reloaded"] = list(sl2.iterator())
            import pickle
            nm = "latest" if p["strategy"] == "latest" else f"iteration_{p['nit'] - 1}"
            with open(f"{odir}/pickle/energy_history_{nm}", "rb") as f:
                eh = pickle.load(f)
            out["energy_history_file"] = [list(eh.time_stamps), list(eh.energy_values)]
            with open(f"{odir}/last_finished_iteration") as f:
                out["marker"] = f.read()
        return comps(out)
    return run


SCRIPTS = {"W1": script_w1, "W2": script_w2, "W3": script_w3, "W4": script_w4, "W5": script_w4}


# --------------------------------------------------------------------------
@functools.lru_cache(maxsize=64)
def reference(script, pjson):
    p = json.loads(pjson)
    reset_globals()
    fs, _ = make_fs(p)
    try:
        with simfs.mounted(fs):
            r = SCRIPTS[script](p)(None)
        files = file_contents(fs, p) if script in ("W4", "W5") else None
    finally:
        if p.get("export"):
            shutil.rmtree(scratch_dir(), ignore_errors=True)
    return r, files


def _problems(out, script):
    probs = out.problems()
    if not probs:
        return None, ""
    exc = next((e for e in out.exc if e is not None), None)
    if exc is not None:
        sig = {"oracle": "rank-raised", "exc": type(exc).__name__, "script": script}
    else:
        sig = {"oracle": probs[0].split(":")[0], "script": script}
    return sig, "; ".join(probs)[:600] + (f" | {type(exc).__name__}: {exc}"[:300] if exc is not None else "")


def _merge_out(a, b):
    """Scheduler statistics of a two-phase case."""
    for k, v in b.stats.items():
        a.stats[k] = a.stats.get(k, 0) + v
    a.steps += b.steps
    a.trace = list(b.trace) + [(0, 0, "new-job")] + list(a.trace)
    a.first_phase = b
    return a


def run_case(case):
    script, p, n = case["script"], case["params"], case["n"]
    pjson = json.dumps(p, sort_keys=True)
    ref, reffiles = reference(script, pjson)
    reset_globals()
    sched.install_mpi_stub()
    fs, _ = make_fs(p)
    sig, detail = None, ""
    try:
        if script == "W5":
            # phase 1 on n tasks stops after iteration stop_at; phase 2 = a new job on n2 tasks resumes
            with simfs.mounted(fs):
                out1 = sched.simulate(script_w4(p, "first"), n, case["sched"], case["sem"], step_cap=300000,
                                      est_steps=case.get("est", 300))
            sig, detail = _problems(out1, script)
            if sig is not None:
                sig["phase"] = "first"
                out = out1
            else:
                reset_globals()
                with simfs.mounted(fs):
                    out = sched.simulate(script_w4(p, "resume"), case["n2"], case["sched2"], case["sem2"],
                                         step_cap=300000, est_steps=case.get("est", 300))
                _merge_out(out, out1)
                nres = case["n2"]
        else:
            fn = SCRIPTS[script](p)
            with simfs.mounted(fs):
                out = sched.simulate(fn, n, case["sched"], case["sem"], step_cap=300000, est_steps=case.get("est", 300))
            nres = n
        files = file_contents(fs, p) if (script in ("W4", "W5") and sig is None and out.ok()) else None
    finally:
        if p.get("export"):
            shutil.rmtree(scratch_dir(), ignore_errors=True)
    reset_globals()
    if sig is None:
        sig, detail = _problems(out, script)
        if sig is not None and script == "W5":
            sig["phase"] = "resume"
    if sig is None:
        for r in range(nres):
            res = out.results[r]
            bad = [k for k in sorted(ref) if k in res and res[k] != ref[k]] + [k for k in sorted(res) if k not in ref]
            if script != "W5":
                bad += [k for k in sorted(ref) if k not in res]
            if bad:
                sig = {"oracle": "result-differs-from-single-process", "script": script, "component": bad[0]}
                detail = f"rank {r} of {nres}: components {bad} differ"
                break
        if sig is None and reffiles is not None:
            if sorted(files) != sorted(reffiles):
                sig = {"oracle": "files-differ-from-single-process", "script": script}
                detail = f"{sorted(files)} vs {sorted(reffiles)}"
            else:
                badf = [k for k in sorted(files) if files[k] != reffiles[k]]
                if script == "W5":
                    # text reports of a stopped-and-resumed run legitimately differ from an uninterrupted one
                    badf = [k for k in badf if not k.endswith(".txt")]
                if badf:
                    sig = {"oracle": "file-content-differs-from-single-process", "script": script,
                           "file": re.sub(r"[0-9]+", "N", os.path.basename(badf[0]))}
                    detail = f"files {badf} differ in content from the single-process run"
    lo = out.leftover
    if sig is None and (lo["buffered_messages"] or lo["posted_receives"] or len(set(lo["collective_counts"])) != 1):
        sig = {"oracle": "conservation", "script": script}
        detail = json.dumps(lo)
    m = p.get("m", None)
    probes = {
        "more_ranks_than_samples": int((script == "W1" and n > p["m"]) or
                                       (script in ("W2", "W3") and n > p["n_samples"] * (2 if p["mirror"] else 1)) or
                                       (script in ("W4", "W5") and not isinstance(p["n_samples"], dict) and
                                        max(n, case.get("n2", 0)) > 2 * p["n_samples"])),
        "mirrored_pair_split": int(script == "W2" and p["mirror"] and n > 1 and (2 * p["n_samples"]) % n != 0 or
                                   (script == "W2" and p["mirror"] and n > p["n_samples"])),
        "empty_rank_explicit_partition": int(script == "W1" and p["partition"] is not None and 0 in p["partition"]),
        "map_run": int(script in ("W4", "W5") and (p["n_samples"] == 0 or isinstance(p["n_samples"], dict))),
        "geovi": int(bool(p.get("geovi"))),
        "randomised_sampling_minimiser": int(bool(p.get("geovi")) and p.get("napprox", 0) >= 2),
        "hdf5_export": int(bool(p.get("export"))),
        "two_digit_sample_files": int(script in ("W4", "W5") and p.get("n_samples") == 6 and bool(p.get("odir"))),
        "output_files_compared": len(reffiles) if (reffiles is not None and sig is None) else 0,
        "resumed_on_other_task_count": int(script == "W5" and sig is None and case.get("n2") != n),
    }
    res = {"sig": sig, "detail": detail, "trace_digest": out.trace_digest, "steps": out.steps,
           "stats": out.stats, "probes": probes, "multi": out.stats["multi_enabled_steps"]}
    if sig is not None:
        ps, ss = sched.explicit_specs(out)
        res["explicit"] = dict(case, sched=ps, sem=ss)
        if script == "W5" and sig.get("phase") != "first":
            ps1, ss1 = sched.explicit_specs(out.first_phase)
            res["explicit"] = dict(case, sched=ps1, sem=ss1, sched2=ps, sem2=ss)
    if case.get("want_trace"):
        res["trace"] = [list(map(str, e)) for e in out.trace[:80]]
    return res


# --------------------------------------------------------------------------
def gen_params(script, rng):
    if script == "W1":
        m = rng.randrange(1, 7)
        return {"kind": rng.choice(["plain", "residual"]), "ftype": rng.choice(["field", "multifield", "field2d_f"]),
                "m": m, "op": rng.choice([None, "lin", "nonlin"]), "subdomain": rng.random() < 0.4,
                "partition": None, "dataseed": rng.randrange(1000)}
    if script == "W2":
        model = rng.choice(["nl3", "nl3", "lin2"])
        keys = "abc" if model == "nl3" else "ab"
        c = [k for k in keys if rng.random() < 0.25]
        pe = [k for k in keys if rng.random() < 0.25]
        if set(pe) == set(keys) or set(c) == set(keys):
            pe, c = pe[:1], c[:1]
        if set(pe) | set(c) == set(keys) and set(pe) & set(c) == set(pe):
            pe = []
        geovi = rng.random() < 0.4
        return {"model": model, "geovi": geovi, "mirror": rng.random() < 0.6,
                "n_samples": rng.randrange(1, 5), "constants": c, "point_estimates": pe,
                "posseed": rng.randrange(1000),
                "napprox": rng.choice([0, 2, 3]) if geovi else 0, "kl_napprox": rng.choice([0, 0, 2])}
    if script == "W3":
        return {"n_samples": rng.randrange(1, 5), "mirror": rng.random() < 0.5, "posseed": rng.randrange(1000)}
    if script == "W4":
        return {"model": rng.choice(["nl3", "lin2"]), "nit": rng.choice([2, 2, 3]),
                # 6 -> 12 mirrored samples: two-digit sample files when the list is saved and loaded again
                "n_samples": rng.choice([0, 1, 2, 3, {"at": 1, "a": 0, "b": 2}, {"at": 1, "a": 2, "b": 1}, 6]),
                "geovi": rng.random() < 0.3, "strategy": rng.choice(["all", "latest"]),
                "constants": rng.choice([[], [], ["a"], "callable"]),
                "point_estimates": rng.choice([[], [], ["b"], "callable"]),
                "odir": rng.random() < 0.7, "transitions": rng.random() < 0.3,
                "fresh": rng.choice(["true", "true", "only0", "alt"]), "export": False,
                "napprox": rng.choice([0, 2]), "comm_callable": rng.random() < 0.3}
    if script == "W5":
        p = gen_params("W4", rng)
        p["nit"] = rng.choice([3, 3, 4])
        p["odir"] = True
        p["stop_at"] = rng.randrange(0, p["nit"] - 1)
        return p
    raise ValueError(script)


def cases_for(tier, seed):
    rng = random.Random(core.h64(seed, "c22-cases"))
    quota = {"W1": 90, "W2": 70, "W3": 15, "W4": 24, "W5": 16} if tier == "quick" else \
            {"W1": 1500, "W2": 1500, "W3": 150, "W4": 400, "W5": 300}
    nsched = 2 if tier == "quick" else 5
    cases = []
    for script, q in quota.items():
        for _ in range(q):
            p = gen_params(script, rng)
            if script == "W4" and p["odir"] and rng.random() < 0.35:
                p["export"] = True
            if script == "W5":
                if rng.random() < 0.25:
                    p["export"] = True
                for _k in range(3 if tier == "quick" else 5):
                    n, n2 = rng.randrange(1, 5), rng.randrange(1, 5)
                    c = {"script": script, "params": p, "n": n, "n2": n2, "est": 2000}
                    for suf, nn in (("", n), ("2", n2)):
                        mode = rng.choice(["rendezvous", "mixed", "eager", "mixed"])
                        c["sem" + suf] = {"mode": mode} if mode != "mixed" else {"mode": "mixed", "seed": rng.getrandbits(48)}
                        c["sched" + suf] = {"kind": "seeded", "seed": rng.getrandbits(48)} if nn > 1 else {"kind": "low"}
                    cases.append(c)
                continue
            for n in range(1, 7):
                if script == "W4" and n > 4 and rng.random() < 0.5:
                    continue
                pp = dict(p)
                if script == "W1" and n > 1 and rng.random() < 0.5:
                    cuts = sorted(rng.randrange(0, p["m"] + 1) for _ in range(n - 1))
                    pp["partition"] = [b - a for a, b in zip([0] + cuts, cuts + [p["m"]])]
                for j in range(nsched if n > 1 else 1):
                    mode = rng.choice(["rendezvous", "mixed", "eager", "mixed"])
                    sem = {"mode": mode} if mode != "mixed" else {"mode": "mixed", "seed": rng.getrandbits(48)}
                    s = {"kind": "seeded", "seed": rng.getrandbits(48)} if j else {"kind": rng.choice(["low", "high"])}
                    cases.append({"script": script, "params": pp, "n": n, "sched": s, "sem": sem,
                                  "est": 2000 if script == "W4" else 300})
    return cases


def minimise(explicit, sig):
    def fails(c):
        try:
            r = run_case(c)
        except Exception:
            return False, None
        return r["sig"] == sig, r
    cur = dict(explicit)
    cur["sched"] = dict(cur["sched"], strict=False)
    if "sched2" in cur:
        cur["sched2"] = dict(cur["sched2"], strict=False)
    ok, _ = fails(cur)
    if not ok:
        return explicit
    if cur["script"] == "W5":
        for n, n2 in ((1, 2), (2, 1), (1, 3), (3, 1), (2, 3), (3, 2), (1, 1)):
            if (n, n2) >= (cur["n"], cur["n2"]):
                continue
            c = dict(cur, n=n, n2=n2, sched={"kind": "low"}, sched2={"kind": "low"})
            if fails(c)[0]:
                cur = c
                break
        for key in ("sem", "sem2"):
            c = dict(cur, **{key: {"mode": "eager"}})
            if fails(c)[0]:
                cur = c
    for n in range(2, cur["n"] if cur["script"] != "W5" else 0):
        pp = dict(cur["params"])
        if pp.get("partition") is not None:
            pp["partition"] = None
        c = dict(cur, n=n, params=pp, sched={"kind": "low"})
        if fails(c)[0]:
            cur = c
            break
    for s in ({"kind": "low"},):
        c = dict(cur, sched=s)
        if fails(c)[0]:
            cur = c
    for sem in ({"mode": "eager"},):
        c = dict(cur, sem=sem)
        if fails(c)[0]:
            cur = c
    p = cur["params"]
    simpl = []
    for k, v in (("geovi", False), ("constants", []), ("point_estimates", []), ("mirror", False),
                 ("n_samples", 1), ("m", 1), ("op", None), ("subdomain", False), ("export", False), ("fresh", "true"),
                 ("transitions", False), ("odir", False), ("nit", 2),
                 ("ftype", "field"), ("kind", "plain")):
        if k in p and p[k] != v:
            simpl.append(dict(p, **{k: v}, **({"partition": None} if k == "m" and "partition" in p else {})))
    for pp in simpl:
        c = dict(cur, params=dict(cur["params"], **{k: pp[k] for k in pp}))
        if fails(c)[0]:
            cur = c
    ok, r = fails(cur)
    if ok and r and "explicit" in r:
        return r["explicit"]
    return explicit


def _minimise_job(t):
    return minimise(t[0], t[1])


def replay(path):
    with open(path) as f:
        rep = json.load(f)
    r = run_case(dict(rep["case"], want_trace=True))
    print("replay signature:", json.dumps(r["sig"], sort_keys=True), "| recorded:",
          json.dumps(rep["signature"], sort_keys=True))
    print("detail:", r["detail"])
    if r["sig"] is None:
        print("replay: property holds on this tree for the recorded case")
        return harness.EXIT_OK
    print(f"VIOLATION property={PROP} replay={path}" + ("" if r["sig"] == rep["signature"] else "  (different signature)"))
    return harness.EXIT_VIOLATION


def main(argv):
    a = harness.parse_args(argv)
    if a.replay:
        return replay(a.replay)
    rep = harness.Report(PROP, a.tier, a.seed, "exploration")
    cases = cases_for(a.tier, a.seed)
    results = harness.pmap(run_case, cases, chunk=12, hang_s=900)
    stats, probes, digests, nontrivial, byscript, byn, fails = {}, {}, set(), set(), {}, {}, {}
    for c, r in zip(cases, results):
        if r is None:
            continue
        if "harness_error" in r:
            rep.harness_error(r["harness_error"] + " " + r.get("tb", "")[-500:])
            continue
        harness.merge_counts(stats, r["stats"])
        harness.merge_counts(probes, r["probes"])
        digests.add(r["trace_digest"])
        if c["n"] > 1:
            nontrivial.add(r["trace_digest"])
        byscript[c["script"]] = byscript.get(c["script"], 0) + 1
        byn[str(c["n"])] = byn.get(str(c["n"]), 0) + 1
        if r["sig"] is not None:
            fails.setdefault(json.dumps(r["sig"], sort_keys=True), []).append(r)
    todo = []
    for k, rs in sorted(fails.items()):
        r = min(rs, key=lambda x: (x["explicit"]["n"], x["steps"]))
        todo.append((r["explicit"], r["sig"], r["detail"], len(rs)))
    mins = harness.pmap(_minimise_job, [(t[0], t[1]) for t in todo[:10]], chunk=1, hang_s=900) if todo else []
    for i, t in enumerate(todo):
        ex = mins[i] if i < len(mins) and isinstance(mins[i], dict) and "harness_error" not in mins[i] else t[0]
        for _ in range(t[3]):
            rep.violation(t[1], {"engine": "mpisim/c22", "case": ex, "detail": t[2],
                                 "replay_cmd": f"./check {PROP} --replay <this file>"})
    samples = []
    for i in (len(cases) // 5, len(cases) // 2):
        r = run_case(dict(cases[i], want_trace=True))
        samples.append({"case": cases[i], "steps": r["steps"], "trace_head": r.get("trace", [])[:40]})
    cov = {
        "evaluations": sum(1 for r in results if r is not None),
        "distinct_nontrivial": len(nontrivial),
        "rule": "one evaluation = one simulated execution of a script (W1 sample lists, W2 SampledKLEnergy, W3 "
                "StochasticEnergyAdapter, W4 full optimize_kl) on N thread-ranks under one schedule and one send-semantics "
                "choice, compared component-wise and bit-for-bit with the comm=None run; distinct = distinct trace digest; "
                "non-trivial = N >= 2",
        "samples": samples, "runs_by_script": byscript, "runs_by_ranks": byn,
        "fault_kinds_fired": {k: stats.get(k, 0) for k in
                              ["send_rendezvous", "rendezvous_blocked", "send_eager", "recv_blocked",
                               "bcast_root_early", "bcast_root_wait", "Send", "Recv", "fs_ops"]},
        "probes": probes,
        "scheduler_steps": stats.get("handoffs", 0), "steps_with_choice": stats.get("multi_enabled_steps", 0),
        "distinct_traces_total": len(digests),
        "real_components": ["nifty.cl: shareRange, allreduce_sum, draw_samples, SampledKLEnergy, SampleList, "
                            "ResidualSampleList, StochasticEnergyAdapter, optimize_kl, minimizers, pickling"],
        "stub_components": ["SimComm + stub mpi4py.MPI module", "SimFS for the driver's output directory", "thread-rank scheduler"],
    }
    return rep.finish(cov, assumptions=[
        "SimComm's reading of MPI-3.1/mpi4py; a shared POSIX file system with immediate cross-rank visibility",
        "rank isolation inside one interpreter: RNG stack swapped at every hand-off; other nifty.cl globals hold equal values on all ranks",
        "real MPI with 1-6 tasks (the quantifier's wording) is unavailable here (libmpi cannot be loaded); simulated ranks stand in"])
