"""Launcher: ./check <id> ...  -> checks/<id>.py:main(argv)."""
import importlib
import os
import sys

sys.path.insert(0, os.path.dirname(os.path.dirname(os.path.abspath(__file__))))


def main():
    if len(sys.argv) < 2:
        print("usage: check <property-id|selftest> [options]")
        return 2
    name = sys.argv[1].lower()
    from verifsim import harness
    try:
        harness.bind_repo()
        harness.quiet()
        mod = importlib.import_module(f"checks.{name}")
        return mod.main(sys.argv[2:])
    except harness.HarnessError as e:
        print("HARNESS-ERROR:", e)
        return 2
    except SystemExit:
        raise
    except BaseException as e:  # noqa
        import traceback
        traceback.print_exc()
        print("HARNESS-ERROR:", type(e).__name__, e)
        return 2


if __name__ == "__main__":
    sys.exit(main())
