"""C21 - runs are reproducible and independent of execution strategy.

(a) fresh interpreters under different PYTHONHASHSEED values (the OS-level
    actors a fresh process differs in), plus twice in one process;
(b) JAX VI under every residual/KL map and JIT switch (round-off agreement);
(c) Hypothesis-generated programs over nifty.cl.random - nested contexts,
    pushes/pops, spawns, draws and exceptions raised at arbitrary statements -
    run against the real module and a model interpreter.
"""
import json
import os
import random
import subprocess
import sys
from concurrent.futures import ThreadPoolExecutor

import numpy as np

from verifsim import core, harness

PROP = "C21"
HERE = os.path.dirname(os.path.abspath(__file__))


class Violation(Exception):
    def __init__(self, sig, detail):
        super().__init__(detail)
        self.sig, self.detail = sig, detail


# --------------------------------------------------------------------------
# (a) fresh process / hash seed
# --------------------------------------------------------------------------
def spawn_worker(args):
    wl, param, hs = args
    env = dict(os.environ)
    env["PYTHONHASHSEED"] = str(hs)
    env["PYTHONDONTWRITEBYTECODE"] = "1"
    try:
        p = subprocess.run(["/venv/bin/python", os.path.join(HERE, "c21_worker.py"), wl, str(param)],
                           env=env, capture_output=True, text=True, timeout=600)
    except subprocess.TimeoutExpired:
        return {"error": "timeout", "wl": wl, "param": param, "hs": hs}
    for line in p.stdout.splitlines():
        if line.startswith("C21RESULT "):
            r = json.loads(line[len("C21RESULT "):])
            r.update(wl=wl, param=param, hs=hs)
            return r
    return {"error": (p.stderr or p.stdout)[-1500:], "wl": wl, "param": param, "hs": hs}


def engine_a(rep, tier, seed, cov):
    rng = core.stream(core.run_seed(seed, "c21a", 0), "fault")
    wls = ["cl_mgvi", "cl_geovi", "cl_map", "cl_multi_lh", "cl_multi_lh_geovi", "jax_vi", "draws",
           "cl_cfm", "cl_odir_latest", "cl_odir_all", "jax_cfm", "jax_odir", "jax_defaults"]
    nhs, nparam = (4, 1) if tier == "quick" else (8, 4)
    jobs = []
    for wl in wls:
        for pi in range(nparam):
            param = rng.randrange(1, 500)
            seeds = [0, 1] + [rng.randrange(2, 2**32 - 1) for _ in range(nhs - 2)]
            for hs in seeds:
                jobs.append((wl, param, hs))
    with ThreadPoolExecutor(harness.nworkers()) as ex:
        res = list(ex.map(spawn_worker, jobs))
    groups = {}
    for r in res:
        if "error" in r:
            rep.harness_error(f"c21 worker {r['wl']} param={r['param']} hashseed={r['hs']}: {r['error']}")
            continue
        groups.setdefault((r["wl"], r["param"]), []).append(r)
        if not r["inproc_equal"]:
            rep.violation({"oracle": "same-process-rerun-differs", "workload": r["wl"]},
                          {"engine": "repro/fresh-process", "workload": r["wl"], "param": r["param"],
                           "hashseeds": [r["hs"]], "detail": "second run in the same process differs"})
    distinct = 0
    for (wl, param), rs in sorted(groups.items()):
        ref = rs[0]
        distinct += len(rs)
        for r in rs[1:]:
            bad = [k for k in sorted(ref["parts"]) if r["parts"].get(k) != ref["parts"][k]]
            if bad:
                rep.violation({"oracle": "fresh-process-differs", "workload": wl, "component": bad[0]},
                              {"engine": "repro/fresh-process", "workload": wl, "param": param,
                               "hashseeds": [ref["hs"], r["hs"]],
                               "detail": f"components {bad} differ between PYTHONHASHSEED={ref['hs']} and {r['hs']}"})
    cov["a_fresh_interpreters"] = len(res)
    cov["a_hash_seeds_used"] = sorted({j[2] for j in jobs})[:12]
    cov["a_workloads"] = wls
    return len(res), distinct


def replay_a(rep):
    rs = [spawn_worker((rep["workload"], rep["param"], hs)) for hs in rep["hashseeds"]]
    for r in rs:
        if "error" in r:
            raise harness.HarnessError(str(r["error"]))
        if not r["inproc_equal"]:
            raise Violation({"oracle": "same-process-rerun-differs", "workload": rep["workload"]}, "")
    if len(rs) > 1:
        bad = [k for k in sorted(rs[0]["parts"]) if rs[1]["parts"].get(k) != rs[0]["parts"][k]]
        if bad:
            raise Violation({"oracle": "fresh-process-differs", "workload": rep["workload"], "component": bad[0]}, str(bad))


# --------------------------------------------------------------------------
# (b) execution strategy
# --------------------------------------------------------------------------
def strategy_run(job):
    # several host "devices" so that the sharded execution strategy (devices=[...]) can be exercised on CPU
    if "xla_force_host_platform_device_count" not in os.environ.get("XLA_FLAGS", ""):
        os.environ["XLA_FLAGS"] = os.environ.get("XLA_FLAGS", "") + " --xla_force_host_platform_device_count=4"
    import jax
    jax.config.update("jax_enable_x64", True)
    import jax.numpy as jnp
    from jax import random as jr
    import nifty.re as jft
    harness.quiet()
    p = job["problem"]

    if p.get("size") == "large":
        # 64 parameters, 32 data points and a forward operator with a wide singular spectrum: the linear
        # sampling CG needs more than 20 iterations (periodic residual recomputation, long recurrences)
        nd = 32
        rs = np.random.default_rng(7)
        U, _ = np.linalg.qr(rs.normal(size=(nd, nd)))
        V, _ = np.linalg.qr(rs.normal(size=(nd, nd)))
        A = jnp.asarray(U @ np.diag(np.logspace(-1.5, 1.0, nd)) @ V.T)

        def fwd(x):
            return A @ (x["a"] * jnp.exp(0.2 * x["b"])) + x["c"]
        dom = {"a": jft.ShapeWithDtype((nd,), float), "b": jft.ShapeWithDtype((nd,), float),
               "c": jft.ShapeWithDtype((nd,), float)}
        data = jnp.asarray(rs.normal(size=nd)) + 0.01 * p["param"]
        # stop on the residual norm: with unit prior metric the position error is <= resnorm, far below the tolerance
        cgkw = dict(resnorm=1e-9, maxiter=200)
    else:
        def fwd(x):
            return x["a"] * jnp.exp(0.3 * x["b"]) + x["c"]
        dom = {k: jft.ShapeWithDtype((3,), float) for k in "abc"}
        data = jnp.array([0.3, -1.2, 2.0]) + 0.01 * p["param"]
        cgkw = dict(absdelta=1e-10, maxiter=30)
    m = jft.Model(fwd, domain=dom)
    lh = jft.Gaussian(data, noise_std_inv=lambda x: x / 0.5).amend(m)
    k1, k2 = jr.split(jr.PRNGKey(p["param"]))
    pos = jft.Vector(jft.random_like(k1, m.domain)) * 0.1
    out = {}
    for v in job["variants"]:
        ndev = v.get("devices")
        if ndev and ((2 * p["n_samples"]) % ndev != 0 or len(jax.devices()) < ndev):
            continue               # samples must be evenly distributable over the devices
        if v.get("solvers") == "eager":
            # the library's default (eager Python) minimisers - only legal with the loop map and without minimiser JIT
            dl = dict(cg_name=None, cg_kwargs=dict(cgkw))
            nl = dict(minimize_kwargs=dict(name=None, xtol=1e-8, maxiter=3, cg_kwargs=dict(name=None)))
        else:
            # jittable (static) samplers so that every residual map is a legal choice
            dl = dict(cg=jft.conjugate_gradient.static_cg, cg_name=None, cg_kwargs=dict(cgkw))
            nl = dict(minimize=jft.optimize._static_newton_cg,
                      minimize_kwargs=dict(name=None, xtol=1e-8, maxiter=3, cg_kwargs=dict(name=None)))
        kw = dict(
            key=k2, n_total_iterations=2, n_samples=p["n_samples"], sample_mode=p["sample_mode"],
            constants=tuple(p["constants"]), point_estimates=tuple(p["point_estimates"]),
            draw_linear_kwargs=dl, nonlinearly_update_kwargs=nl,
            kl_kwargs=dict(minimize_kwargs=dict(name=None, xtol=1e-8, maxiter=4, cg_kwargs=dict(name=None))),
            residual_map=v["residual_map"], kl_map=v["kl_map"], jit=v["jit"],
            linear_minimizer_jit=v["lin_jit"], nonlinear_minimizer_jit=v["nl_jit"],
            devices=jax.devices()[:ndev] if ndev else None)
        try:
            s, st = jft.optimize_kl(lh, pos, **kw)
            flat = np.concatenate([np.ravel(np.asarray(x)) for x in jax.tree_util.tree_leaves((s.pos, s._samples))])
            out[json.dumps(v, sort_keys=True)] = flat.tolist()
        except Exception as e:  # noqa
            out[json.dumps(v, sort_keys=True)] = f"raised {type(e).__name__}: {e}"[:300]
    return out


def variants():
    """Every legal combination: the loop map (lmap) is an eager Python loop and
    cannot be traced, so kl_map='lmap' only exists without JIT (the KL functions
    are compiled as a whole when jit=True)."""
    vs = []
    for rm in ("vmap", "lmap", "smap"):
        for km in ("vmap", "lmap", "smap"):
            for jit in (True, False):
                if km == "lmap" and jit:
                    continue
                for mj in (False, True):
                    vs.append({"residual_map": rm, "kl_map": km, "jit": jit, "lin_jit": mj, "nl_jit": mj})
    vs.append({"residual_map": "lmap", "kl_map": "vmap", "jit": True, "lin_jit": True, "nl_jit": False})
    vs.append({"residual_map": "lmap", "kl_map": "vmap", "jit": True, "lin_jit": False, "nl_jit": True})
    # the library's default eager minimisers (what a user gets without asking for minimiser JIT)
    for km in ("vmap", "smap", "lmap"):
        for jit in (True, False):
            if km == "lmap" and jit:
                continue
            vs.append({"residual_map": "lmap", "kl_map": km, "jit": jit, "lin_jit": False, "nl_jit": False,
                       "solvers": "eager"})
    # samples sharded over several (host) devices
    for nd in (2, 4):
        for rm in ("vmap", "smap"):
            vs.append({"residual_map": rm, "kl_map": "vmap", "jit": True, "lin_jit": False, "nl_jit": False, "devices": nd})
    return vs


# "beyond round-off": max abs deviation relative to the result scale.  Calibrated: over 3 x 18 problem sets x 37
# variants on the unchanged tree the largest deviation seen was 6.3e-11 (every solver stops on a residual norm or an
# iteration cap, never on a knife-edge); 1e-8 leaves a factor > 100 and still exposes a solver that loses digits.
TOL_B = 1e-8
cov_devices = [0]


def compare_b(problem, res):
    vs = variants()
    # reference = the driver's documented defaults: loop map for residuals, vmap for the KL, jit, eager minimisers
    ref_key = json.dumps({"residual_map": "lmap", "kl_map": "vmap", "jit": True, "lin_jit": False, "nl_jit": False,
                          "solvers": "eager"}, sort_keys=True)
    ref = res[ref_key]
    if isinstance(ref, str):
        raise Violation({"oracle": "strategy-run-raised", "variant": "default"}, ref)
    ref = np.array(ref)
    scale = max(1.0, float(np.max(np.abs(ref))))
    worst = 0.0
    for k, v in sorted(res.items()):
        if isinstance(v, str):
            raise Violation({"oracle": "strategy-run-raised", "variant": k}, v)
        v = np.array(v)
        if "devices" in k:
            cov_devices[0] += 1
        if v.shape == ref.shape:
            worst = max(worst, float(np.max(np.abs(v - ref))) / scale)
        if v.shape != ref.shape or not np.all(np.abs(v - ref) <= TOL_B * scale):
            err = float(np.max(np.abs(v - ref))) if v.shape == ref.shape else -1
            raise Violation({"oracle": "strategy-changes-result", "variant": k},
                            f"max abs deviation {err:.3e} (scale {scale:.3g}) for problem {problem}")
    return worst


def engine_b(rep, tier, seed, cov):
    rng = core.stream(core.run_seed(seed, "c21b", 0), "workload")
    nprob = 1 if tier == "quick" else 16
    problems = [{"param": 11 + seed % 97, "n_samples": 2, "sample_mode": "nonlinear_update",
                 "constants": [], "point_estimates": ["c"]},
                {"param": 5 + seed % 89, "n_samples": 2, "sample_mode": "linear_resample",
                 "constants": [], "point_estimates": [], "size": "large"}]
    for i in range(nprob):
        problems.append({"param": rng.randrange(1, 500), "n_samples": rng.choice([1, 2, 3]),
                         "sample_mode": rng.choice(["linear_resample", "nonlinear_resample", "nonlinear_update"]),
                         "constants": rng.choice([[], ["a"]]), "point_estimates": rng.choice([[], ["c"]]),
                         "size": rng.choice(["small", "small", "large"])})
    jobs = [{"problem": p, "variants": [v]} for p in problems for v in variants()]   # one XLA build per job
    res = harness.pmap(strategy_run, jobs, chunk=1, hang_s=1500)
    n = 0
    byprob = {}
    for jb, r in zip(jobs, res):
        if r is None:
            continue
        if "harness_error" in r:
            rep.harness_error(r["harness_error"] + r.get("tb", "")[-500:])
            continue
        n += len(r)
        byprob.setdefault(json.dumps(jb["problem"], sort_keys=True), {}).update(r)
    for pj, r in sorted(byprob.items()):
        try:
            w = compare_b(json.loads(pj), r)
            cov["b_max_relative_deviation_seen"] = max(cov.get("b_max_relative_deviation_seen", 0.0), w)
        except Violation as v:
            rep.violation(v.sig, {"engine": "repro/strategy", "problem": json.loads(pj), "detail": v.detail})
    cov["b_strategy_runs"] = n
    cov["b_multi_device_runs_compared"] = cov_devices[0]
    cov["b_variants"] = len(variants())
    return n, n


# --------------------------------------------------------------------------
# (c) RNG-context programs
# --------------------------------------------------------------------------
class ProgramError(Exception):
    pass


class RealBackend:
    def __init__(self):
        import pickle
        from nifty.cl import random as R
        self.R = R
        R.setState(pickle.dumps(([np.random.SeedSequence(42)], [np.random.default_rng(np.random.SeedSequence(42))])))

    def depth(self):
        return len(self.R._sseq)

    def token(self):
        return self.R.current_rng()

    def draw(self, kind, n):
        R = self.R
        if kind == "normal":
            return R.Random.normal(np.float64, (n,))
        if kind == "uniform":
            return R.Random.uniform(np.float64, (n,))
        if kind == "pm1":
            return R.Random.pm1(np.int64, (n,))
        return R.current_rng().random(n)

    def context(self, inp):
        return self.R.Context(inp)

    def push(self, seed):
        self.R.push_sseq_from_seed(seed)

    def pop(self):
        self.R.pop_sseq()

    def spawn(self, n):
        return self.R.spawn_sseq(n)

    def get_state(self):
        return self.R.getState()

    def set_state(self, st):
        self.R.setState(st)


class ModelBackend:
    """Reference: an explicit stack of independent numpy generators."""

    class _Ctx:
        def __init__(self, m, inp):
            self.m = m
            self.ss = inp if isinstance(inp, np.random.SeedSequence) else np.random.SeedSequence(inp)

        def __enter__(self):
            self.m.stack.append((self.ss, np.random.default_rng(self.ss)))

        def __exit__(self, *a):
            self.m.stack.pop()
            return False

    def __init__(self):
        ss = np.random.SeedSequence(42)
        self.stack = [(ss, np.random.default_rng(ss))]

    def depth(self):
        return len(self.stack)

    def token(self):
        return self.stack[-1][1]

    def draw(self, kind, n):
        g = self.stack[-1][1]
        if kind == "normal":
            return g.normal(0., 1., (n,)).astype(np.float64, copy=False)
        if kind == "uniform":
            return g.uniform(0., 1., (n,)).astype(np.float64, copy=False)
        if kind == "pm1":
            return (2 * g.integers(0, 2, size=(n,)) - 1).astype(np.int64, copy=False)
        return g.random(n)

    def context(self, inp):
        return ModelBackend._Ctx(self, inp)

    def push(self, seed):
        ss = np.random.SeedSequence(seed)
        self.stack.append((ss, np.random.default_rng(ss)))

    def pop(self):
        self.stack.pop()

    def spawn(self, n):
        return self.stack[-1][0].spawn(n)

    def get_state(self):
        import pickle
        return pickle.dumps(self.stack)      # numpy's own notion of the state: generator positions AND spawn counters

    def set_state(self, st):
        import pickle
        self.stack = pickle.loads(st)


def interp(be, prog, trace, spawned, lvl=0, ctxs=None, scopes=0, saved=None):
    """Run a program (list of statements) on a backend, appending to trace."""
    if ctxs is None:
        ctxs = []
    if saved is None:
        saved = []
    for st in prog:
        k = st[0]
        if k == "draw":
            trace.append(("draw", st[1], core.digest(be.draw(st[1], st[2])), be.depth()))
        elif k == "spawn":
            new = be.spawn(st[1])
            spawned.extend(new)
            trace.append(("spawn", st[1], be.depth(), [[int(x) for x in ss.spawn_key] for ss in new]))
        elif k in ("roundtrip", "save", "restore"):
            # getState / setState replace the whole stack by equal copies: only generated outside of any open
            # scope (a scope's exit compares generator identity), i.e. where the driver uses them as well
            if scopes:
                continue
            if k == "roundtrip":
                be.set_state(be.get_state())
                trace.append(("roundtrip", be.depth()))
            elif k == "save":
                saved.append(be.get_state())
                trace.append(("save", be.depth()))
            elif saved:
                be.set_state(saved[st[1] % len(saved)])
                trace.append(("restore", be.depth()))
        elif k == "raise":
            trace.append(("raise", lvl, be.depth()))
            raise ProgramError()
        elif k == "ctx":
            inp = st[1]
            if st[2] == "spawned":
                if not spawned:
                    continue
                inp = spawned[st[1] % len(spawned)]
            d0, tok = be.depth(), be.token()
            trace.append(("enter", be.depth()))
            try:
                with be.context(inp):
                    if be.depth() != d0 + 1:
                        trace.append(("BAD-depth-inside", be.depth()))
                    interp(be, st[3], trace, spawned, lvl + 1, ctxs, scopes + 1, saved)
            finally:
                trace.append(("exit", be.depth(), be.depth() == d0, be.token() is tok))
        elif k == "mkctx":
            ctxs.append(be.context(st[1]))          # a Context object that may be entered several times
        elif k == "enter_stored":
            if not ctxs:
                continue
            c = ctxs[st[1] % len(ctxs)]
            if getattr(c, "_verif_active", False):
                continue          # reusable, but (like most context managers) not re-entrant: nested use is not generated
            d0, tok = be.depth(), be.token()
            trace.append(("enter-stored", be.depth()))
            c._verif_active = True
            try:
                with c:
                    interp(be, st[2], trace, spawned, lvl + 1, ctxs, scopes + 1, saved)
            finally:
                c._verif_active = False
                trace.append(("exit", be.depth(), be.depth() == d0, be.token() is tok))
        elif k == "pushpop":
            d0, tok = be.depth(), be.token()
            be.push(st[1])
            try:
                interp(be, st[2], trace, spawned, lvl + 1, ctxs, scopes + 1, saved)
            finally:
                be.pop()
                trace.append(("popped", be.depth() == d0, be.token() is tok))
        elif k == "try":
            try:
                interp(be, st[1], trace, spawned, lvl + 1, ctxs, scopes, saved)
                trace.append(("try-completed", lvl, be.depth()))
            except ProgramError:
                trace.append(("caught", lvl, be.depth()))


def run_program(prog):
    real, model = RealBackend(), ModelBackend()
    tr, tm = [], []
    er = em = None
    try:
        interp(real, [("try", prog)], tr, [])
    except Exception as e:  # noqa
        er = type(e).__name__
    try:
        interp(model, [("try", prog)], tm, [])
    except Exception as e:  # noqa
        em = type(e).__name__
    real.R.setState(__import__("pickle").dumps(([np.random.SeedSequence(42)],
                                                [np.random.default_rng(np.random.SeedSequence(42))])))
    if er != em:
        raise Violation({"oracle": "rng-program-raised", "exc": str(er)}, f"real raised {er}, model {em}")
    for i, (a, b) in enumerate(zip(tr, tm)):
        if a != b:
            what = a[0] if a[0] == b[0] else f"{b[0]}-expected"
            raise Violation({"oracle": "rng-program-diverges", "at": what},
                            f"event {i}: real {a} vs model {b}")
    if len(tr) != len(tm):
        raise Violation({"oracle": "rng-program-diverges", "at": "length"}, f"{len(tr)} vs {len(tm)} events")
    for ev in tr:
        if ev[0] in ("exit",) and not (ev[2] and ev[3]):
            raise Violation({"oracle": "context-did-not-restore-generator"}, str(ev))
        if ev[0] == "popped" and not (ev[1] and ev[2]):
            raise Violation({"oracle": "pop-did-not-restore-generator"}, str(ev))
    return len(tr)


def strategies():
    from hypothesis import strategies as st
    draw = st.tuples(st.just("draw"), st.sampled_from(["normal", "uniform", "pm1", "current_rng"]), st.integers(1, 4))
    spawn = st.tuples(st.just("spawn"), st.integers(1, 3))
    rais = st.tuples(st.just("raise"))
    mkctx = st.tuples(st.just("mkctx"), st.integers(0, 50))
    state = st.one_of(st.tuples(st.just("roundtrip")), st.tuples(st.just("save")),
                      st.tuples(st.just("restore"), st.integers(0, 3)))
    leaf = st.one_of(draw, draw, spawn, spawn, rais, mkctx, state)

    def ext(children):
        body = st.lists(children, min_size=0, max_size=4)
        return st.one_of(
            st.tuples(st.just("ctx"), st.integers(0, 50), st.sampled_from(["seed", "seed", "spawned"]), body),
            st.tuples(st.just("pushpop"), st.integers(0, 50), body),
            st.tuples(st.just("enter_stored"), st.integers(0, 5), body),
            st.tuples(st.just("try"), body))
    stmt = st.recursive(leaf, ext, max_leaves=14)
    return st.lists(stmt, min_size=1, max_size=6)


def tolist(x):
    return [tolist(y) for y in x] if isinstance(x, (list, tuple)) else x


def totuple(x):
    return tuple(totuple(y) if isinstance(y, list) else y for y in x) if isinstance(x, list) else x


def nest_depth(p):
    d = 0
    for s in p:
        if s[0] in ("ctx",):
            d = max(d, 1 + nest_depth(s[3]))
        elif s[0] in ("pushpop", "enter_stored"):
            d = max(d, 1 + nest_depth(s[2]))
        elif s[0] == "try":
            d = max(d, nest_depth(s[1]))
    return d


def has_raise_in_ctx(p, inside=False):
    for s in p:
        if s[0] == "raise" and inside:
            return True
        if s[0] == "ctx" and has_raise_in_ctx(s[3], True):
            return True
        if s[0] in ("pushpop", "enter_stored") and has_raise_in_ctx(s[2], True):
            return True
        if s[0] == "try" and has_raise_in_ctx(s[1], inside):
            return True
    return False


def hunt(job):
    from hypothesis import HealthCheck, Phase, Verbosity, given, seed, settings
    state = {"runs": 0, "fail": None, "events": 0, "shapes": set(), "raise_in_ctx": 0, "maxdepth": 0, "sample": None}

    def body(prog):
        state["runs"] += 1
        dg = core.digest(json.dumps(tolist(prog)))
        if has_raise_in_ctx(prog):
            state["raise_in_ctx"] += 1
            state["shapes"].add(dg)
            if state["sample"] is None:
                state["sample"] = tolist(prog)
        state["maxdepth"] = max(state["maxdepth"], nest_depth(prog))
        try:
            state["events"] += run_program(prog)
        except Violation as v:
            state["fail"] = {"prog": tolist(prog), "sig": v.sig, "detail": v.detail}
            raise
    test = seed(job["hseed"])(settings(max_examples=job["examples"], database=None, deadline=None,
                                       report_multiple_bugs=False, suppress_health_check=list(HealthCheck),
                                       verbosity=Verbosity.quiet, phases=[Phase.generate, Phase.shrink])(
        given(strategies())(body)))
    try:
        test()
    except Violation:
        pass
    except BaseException:  # noqa
        if state["fail"] is None:
            raise
    if state["fail"]:
        sig = state["fail"]["sig"]

        def fails(prog):
            try:
                run_program(totuple(prog))
            except Violation as v:
                return v.sig == sig
            except Exception:
                return False
            return False
        state["fail"]["prog"] = harness.ddmin_list(state["fail"]["prog"], fails)
    return {"runs": state["runs"], "fail": state["fail"], "events": state["events"],
            "shapes": sorted(state["shapes"]), "raise_in_ctx": state["raise_in_ctx"], "maxdepth": state["maxdepth"],
            "sample": state["sample"]}


def engine_c(rep, tier, seed, cov):
    nproc, nex = (16, 300) if tier == "quick" else (64, 3000)
    jobs = [{"hseed": core.h64(seed, "c21c", i) % (2**31), "examples": nex} for i in range(nproc)]
    res = harness.pmap(hunt, jobs, chunk=1, hang_s=1500)
    runs, shapes, ric, md, events, sample = 0, set(), 0, 0, 0, None
    for jb, r in zip(jobs, res):
        if r is None:
            continue
        if "harness_error" in r:
            rep.harness_error(r["harness_error"] + r.get("tb", "")[-500:])
            continue
        runs += r["runs"]
        shapes.update(r["shapes"])
        ric += r["raise_in_ctx"]
        md = max(md, r["maxdepth"])
        events += r["events"]
        sample = sample or r["sample"]
        if r["fail"]:
            f = r["fail"]
            rep.violation(f["sig"], {"engine": "repro/rng-programs", "program": f["prog"], "detail": f["detail"],
                                     "hypothesis_seed": jb["hseed"]})
    cov["c_programs"] = runs
    cov["c_programs_with_exception_inside_context"] = ric
    cov["c_max_nesting_depth"] = md
    cov["c_events_compared"] = events
    cov["c_sample_program"] = sample
    return runs, len(shapes)


def replay(path):
    with open(path) as f:
        rep = json.load(f)
    try:
        if rep["engine"] == "repro/fresh-process":
            replay_a(rep)
        elif rep["engine"] == "repro/strategy":
            r = strategy_run({"problem": rep["problem"], "variants": variants()})
            compare_b(rep["problem"], r)
        else:
            run_program(totuple(rep["program"]) if isinstance(rep["program"], list) else rep["program"])
    except Violation as v:
        print("replay signature:", json.dumps(v.sig, sort_keys=True), "| recorded:", json.dumps(rep["signature"], sort_keys=True))
        print("detail:", v.detail)
        print(f"VIOLATION property={PROP} replay={path}" + ("" if v.sig == rep["signature"] else "  (different signature)"))
        return harness.EXIT_VIOLATION
    print("replay: property holds on this tree for the recorded case")
    return harness.EXIT_OK


def main(argv):
    a = harness.parse_args(argv)
    if a.replay:
        return replay(a.replay)
    rep = harness.Report(PROP, a.tier, a.seed, "exploration")
    cov = {}
    na, da = engine_a(rep, a.tier, a.seed, cov)
    nb, db = engine_b(rep, a.tier, a.seed, cov)
    nc, dc = engine_c(rep, a.tier, a.seed, cov)
    cov.update({
        "evaluations": na + nb + nc, "distinct_nontrivial": da + db + dc,
        "rule": "evaluations = fresh interpreters (a) + JAX VI runs under one execution strategy each (b) + RNG-context "
                "programs (c); distinct/non-trivial = (a) every (workload, parameter, hash seed) triple, (b) every "
                "(problem, variant) pair, (c) distinct programs that raise an exception inside a context or push/pop scope",
        "samples": [{"a": "cl_mgvi / cl_geovi / cl_map / jax_vi / draws in fresh interpreters, PYTHONHASHSEED varied"},
                    {"b_variant_example": variants()[2]}, {"c_program": cov.get("c_sample_program")}],
        "fault_kinds_fired": {"hash_seed_changes": na, "strategy_switches": nb,
                              "exceptions_inside_rng_scopes": cov.get("c_programs_with_exception_inside_context", 0)},
        "real_components": ["nifty.cl.random, classic optimize_kl, nifty.re.optimize_kl, smap/lmap, pickling"],
        "stub_components": ["model interpreter for RNG programs (stack of independent numpy generators)"],
    })
    return rep.finish(cov, assumptions=[
        "native thread pools inside XLA / ducc / BLAS are not schedulable from Python and run single-threaded where a switch exists",
        "'beyond round-off' is read as max abs deviation <= 1e-8 x result scale (largest deviation measured on the unchanged tree: 6e-11)",
        "a fresh process on the same machine differs from the first in hash seed, addresses and cache state; only the hash seed is controllable"])
