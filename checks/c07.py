"""C07 - fields are immutable once constructed.

An adversarial writer acts at arbitrary instants of a construction history:
Hypothesis generates programs of constructions (every public constructor),
handle acquisitions, dependent operators and *writes* through the source
array or any handle.  Reference model: a byte snapshot per field taken at
construction by a non-perturbing read.  Invariant after every step: each
write either raised or left every live field (and every operator built from
one) unchanged.
"""
import json

import numpy as np

from verifsim import core, harness

PROP = "C07"

CTORS = ["Field", "from_raw", "makeField", "Field_of_AnyArray", "MultiField.from_raw", "MultiField.from_dict",
         "makeField_dict", "full", "scalar", "from_random", "arith", "MultiField.full"]
SRC_KINDS = ["fresh", "view_of_base", "noncontig", "zero_d", "complex", "fortran", "subclass", "memmap",
             "recarray_view", "masked"]
DERIVES = ["cast_domain", "real", "imag", "conjugate", "neg", "at", "extract", "getitem_key",
           # fields that come into existence by (un)pickling / copying an existing field
           "pickle_default", "pickle_p2", "pickle_highest", "deepcopy", "copy_copy"]
HANDLES = ["val", "raw", "asnumpy", "val.asnumpy", "val.val", "val_slice", "val_view", "val_reshape", "val_T",
           "val_real", "val_rw", "asnumpy_rw", "val_flatten_index", "to_dict_val",
           # containers handed out by a MultiField (dicts are mutable: editing them must not reach the field)
           "mf_val_dict", "mf_to_dict", "mf_asnumpy_dict"]
OPS = ["makeOp", "Adder", "GaussianEnergy", "ScalingLike"]
TOUCHES = ["asnumpy", "val", "copy", "view", "at", "lock", "readonly", "np_asarray", "getitem", "astype", "reshape"]
WRITES = ["setitem", "setslice", "iadd", "np_add_out", "fill", "sort", "copyto", "imul_scalar", "np_multiply_out_any",
          "put", "itemset_via_flat",
          # numpy functions / ufunc methods applied to the wrapper itself (dispatched through __array_function__ / __array_ufunc__)
          "np_copyto_direct", "np_putmask_direct", "ufunc_at", "np_place_direct"]


# ways to obtain a NEW array object from a source array / wrapper / handle of an existing field, from which
# another field is then constructed (copies made through the public API must be protected like any other source)
# only derivations that yield NEW memory (or the same array object): a view of a still-writable base would make the base
# "another alias of the same memory", which the statement does not cover
RECONS = ["fancy", "mask", "pickle", "deepcopy", "copy_copy", "copy_method", "np_array",
          # constructing with a converting keyword (dtype=...) where the installed constructors offer one (discovered by
          # introspection: the pinned tree has none) - a conversion must produce a new array, never touch the source wrapper
          "ctor_dtype"]
RECON_CTORS = ["Field", "from_raw", "makeField", "Field_of_AnyArray"]


class TrackedArray(np.ndarray):
    """A user-defined ndarray subclass (like np.memmap / np.matrix / astropy Quantity)."""


class Violation(Exception):
    def __init__(self, sig, detail):
        super().__init__(detail)
        self.sig, self.detail = sig, detail


class World:
    def __init__(self):
        self.fields = []     # dicts: f, snap, ctor, label
        self.targets = []    # dicts: obj, label, copy(bool)
        self.ops = []        # dicts: apply() -> np result, ref
        self.stats = {"writes_attempted": 0, "writes_raised": 0, "writes_succeeded_on_copy": 0,
                      "writes_succeeded_elsewhere": 0, "fields": 0, "handles": 0, "operators": 0, "checks": 0,
                      "write_before_first_asnumpy": 0, "write_after_asnumpy": 0}
        self.asnumpy_called = False


def read(f):
    """Non-perturbing read of a field's bytes (never calls asnumpy())."""
    import nifty.cl as ift
    if isinstance(f, ift.MultiField):
        return {k: np.array(v.val.val, copy=True) for k, v in f.items()}
    return {"": np.array(f.val.val, copy=True)}


def read_via_container(f):
    """What a MultiField reports through its `.val` container (a second, independent way to look at it)."""
    import nifty.cl as ift
    if not isinstance(f, ift.MultiField):
        return None
    return {k: np.array(v.val if isinstance(v, ift.AnyArray) else v, copy=True) for k, v in f.val.items()}


def same(a, b):
    return set(a) == set(b) and all(a[k].shape == b[k].shape and a[k].dtype == b[k].dtype
                                    and a[k].tobytes() == b[k].tobytes() for k in a)


def src_array(kind, seed, shape):
    rng = np.random.default_rng(seed)
    if kind == "zero_d":
        return np.array(rng.normal()), ()
    if kind == "complex":
        return rng.normal(size=shape) + 1j * rng.normal(size=shape), shape
    if kind == "view_of_base":
        base = rng.normal(size=(shape[0] + 2,) + shape[1:])
        return base[1:-1], shape          # contiguous view; we only ever write through the view object itself
    if kind == "noncontig":
        base = rng.normal(size=(2 * shape[0],) + shape[1:])
        return base[::2], shape
    if kind == "fortran":
        return np.asfortranarray(rng.normal(size=shape)), shape
    if kind == "subclass":
        return rng.normal(size=shape).view(TrackedArray), shape
    if kind == "memmap":
        import os
        import tempfile
        fd, fn = tempfile.mkstemp(dir="/dev/shm", prefix="verif-c07-")
        os.close(fd)
        m = np.memmap(fn, dtype=np.float64, mode="w+", shape=shape)
        m[...] = rng.normal(size=shape)
        os.unlink(fn)
        return m, shape
    if kind == "recarray_view":
        return rng.normal(size=shape).view(np.recarray), shape
    if kind == "masked":
        return np.ma.MaskedArray(rng.normal(size=shape)), shape
    return rng.normal(size=shape), shape


def domain_for(shape):
    import nifty.cl as ift
    if shape == ():
        return ift.DomainTuple.scalar_domain()
    if len(shape) == 1:
        return ift.DomainTuple.make(ift.UnstructuredDomain(shape[0]))
    return ift.DomainTuple.make(ift.RGSpace(shape))


def step_construct(w, ctor, kind, seed, two_d, prewrap=False):
    import nifty.cl as ift
    shape = (2, 3) if two_d else (4,)
    if ctor in ("full", "scalar", "from_random", "arith", "MultiField.full"):
        # constructors that own their storage: only handles obtained from the field can be attacked
        dom = domain_for(shape)
        if ctor == "full":
            f = ift.Field.full(dom, 1.5 + seed)
        elif ctor == "scalar":
            f = ift.Field.scalar(1.5 + seed)
        elif ctor == "from_random":
            with ift.random.Context(seed):
                f = ift.from_random(dom)
        elif ctor == "arith":
            g = ift.makeField(dom, np.random.default_rng(seed).normal(size=shape))
            f = g * 2.0 + g
        else:
            f = ift.full(ift.makeDomain({"a": dom, "b": domain_for((4,))}), 0.5 + seed)
        w.fields.append({"f": f, "snap": read(f), "ctor": ctor, "label": f"{ctor}()"})
        w.stats["fields"] += 1
        return
    if ctor.startswith("MultiField") or ctor == "makeField_dict":
        arrs, doms = {}, {}
        for i, k in enumerate(("a", "b")):
            a, shp = src_array(kind if i == 0 else "fresh", seed + i, shape)
            arrs[k], doms[k] = a, domain_for(shp)
        mdom = ift.makeDomain(doms)
        if ctor == "MultiField.from_raw":
            f = ift.MultiField.from_raw(mdom, arrs)
        elif ctor == "makeField_dict":
            f = ift.makeField(mdom, arrs)
        else:
            f = ift.MultiField.from_dict({k: ift.Field(doms[k], arrs[k]) for k in arrs})
        for k, a in arrs.items():
            w.targets.append({"obj": a, "label": f"source[{kind if k == 'a' else 'fresh'}]", "copy": False})
    else:
        a, shp = src_array(kind, seed, shape)
        dom = domain_for(shp)
        if prewrap and ctor != "Field_of_AnyArray":
            # another wrapper of the source array that exists before the field does
            w.targets.append({"obj": ift.AnyArray(a), "label": "pre-existing-AnyArray", "copy": False})
        if ctor == "Field":
            f = ift.Field(dom, a)
        elif ctor == "from_raw":
            f = ift.Field.from_raw(dom, a)
        elif ctor == "makeField":
            f = ift.makeField(dom, a)
        else:
            aa = ift.AnyArray(a)
            f = ift.Field(dom, aa)
            w.targets.append({"obj": aa, "label": "source-AnyArray", "copy": False})
        w.targets.append({"obj": a, "label": f"source[{kind}]", "copy": False})
    w.fields.append({"f": f, "snap": read(f), "ctor": ctor, "label": f"{ctor}({kind})"})
    w.stats["fields"] += 1


def step_reconstruct(w, how, j, ctor):
    """Build a further field from an array derived (through the public API) from an existing target."""
    import copy as _copy
    import pickle
    import nifty.cl as ift
    if not w.targets:
        return
    t = w.targets[j % len(w.targets)]
    obj = t["obj"]
    if isinstance(obj, dict):
        return
    isany = isinstance(obj, ift.AnyArray)
    wrap = (lambda x: ift.AnyArray(x)) if isany else (lambda x: x)
    if how == "ctor_dtype":
        import inspect
        fn = {"Field": None, "from_raw": ift.Field.from_raw, "makeField": ift.makeField,
              "Field_of_AnyArray": ift.AnyArray}[ctor]
        try:
            if fn is None or "dtype" not in inspect.signature(fn).parameters:
                return
        except (TypeError, ValueError):
            return
        try:
            src_dt = np.dtype(obj.dtype)
            dt = np.float32 if src_dt != np.float32 else np.float64
            if fn is ift.AnyArray:
                new = ift.AnyArray(obj, dtype=dt)
                f = ift.Field(domain_for(tuple(new.shape)), new)
            else:
                f = fn(domain_for(tuple(obj.shape)), obj, dtype=dt)
                new = f.val
        except (TypeError, ValueError, IndexError, AttributeError, NotImplementedError):
            return
        w.targets.append({"obj": new, "label": "derived-source:ctor_dtype", "copy": False})
        w.fields.append({"f": f, "snap": read(f), "ctor": ctor, "label": f"{ctor}(dtype-converted {t['label']})"})
        w.stats["fields"] += 1
        w.stats["fields_via_converting_keyword"] = w.stats.get("fields_via_converting_keyword", 0) + 1
        return
    try:
        if how == "fancy":
            new = obj[wrap(np.arange(obj.shape[0])[::-1].copy())]
        elif how == "mask":
            new = obj[wrap(np.ones(obj.shape, dtype=bool))]
        elif how == "pickle":
            new = pickle.loads(pickle.dumps(obj))
        elif how == "deepcopy":
            new = _copy.deepcopy(obj)
        elif how == "copy_copy":
            new = _copy.copy(obj)
        elif how == "copy_method":
            new = obj.copy()
        elif how == "np_array":
            new = ift.AnyArray(np.array(obj.val)) if isany else np.array(obj)
        elif how in ("slice_step", "ravel"):
            return                 # (old replay files) views are not generated any more
        else:
            raise ValueError(how)
        if not isinstance(new, (np.ndarray, ift.AnyArray)) or new.ndim > 2 or (new.ndim and 0 in new.shape):
            return
        if isinstance(new, np.ma.MaskedArray):
            return
        # a shallow copy of a wrapper shares the wrapped ndarray: if that is a view of a still-writable base, the base
        # is "another alias of the same memory" (not covered by the statement) -> not generated
        nd = new.val if isinstance(new, ift.AnyArray) else new
        b = nd
        while isinstance(getattr(b, "base", None), np.ndarray):
            b = b.base
        if b is not nd and b.flags.writeable:
            return
        # likewise, numpy cannot protect memory that a *pre-existing, distinct* writable ndarray (e.g. a view taken from a
        # writable copy before this field exists) already aliases: setting the flag on one array object does not reach
        # views created earlier.  Such sources are "another alias of the same memory" as well.
        for t2 in w.targets:
            o2 = t2["obj"].val if isinstance(t2["obj"], ift.AnyArray) else t2["obj"]
            if isinstance(o2, np.ndarray) and o2 is not nd and o2.flags.writeable and o2.size and nd.size \
                    and np.shares_memory(o2, nd):
                return
        dom = domain_for(tuple(new.shape))
        if ctor == "Field":
            f = ift.Field(dom, new)
        elif ctor == "from_raw":
            f = ift.Field.from_raw(dom, new)
        elif ctor == "makeField":
            f = ift.makeField(dom, new)
        else:
            new = new if isinstance(new, ift.AnyArray) else ift.AnyArray(new)
            f = ift.Field(dom, new)
    except (TypeError, ValueError, IndexError, AttributeError, NotImplementedError, pickle.PicklingError):
        return                     # a refused derivation / construction is not a write
    w.targets.append({"obj": new, "label": f"derived-source:{how}", "copy": False})
    w.fields.append({"f": f, "snap": read(f), "ctor": ctor, "label": f"{ctor}(derived:{how} of {t['label']})"})
    w.stats["fields"] += 1
    w.stats["fields_from_derived_arrays"] = w.stats.get("fields_from_derived_arrays", 0) + 1


def leaf(f, pick):
    """A Field to take handles from (a MultiField's entry or the field itself)."""
    import nifty.cl as ift
    if isinstance(f, ift.MultiField):
        keys = sorted(f.keys())
        return f[keys[pick % len(keys)]]
    return f


def step_derive(w, how, i, pick):
    import nifty.cl as ift
    if not w.fields:
        return
    ent = w.fields[i % len(w.fields)]
    f = ent["f"]
    try:
        if how == "cast_domain":
            g = leaf(f, pick)
            g = g.cast_domain(g.domain)
        elif how == "real":
            g = f.real
        elif how == "imag":
            g = f.imag
        elif how == "conjugate":
            g = f.conjugate()
        elif how == "neg":
            g = -f
        elif how == "at":
            g = f.at(-1)
        elif how == "extract":
            if not isinstance(f, ift.MultiField):
                return
            g = f.extract_by_keys(["a"])
        elif how.startswith("pickle_"):
            import pickle
            proto = {"pickle_default": pickle.DEFAULT_PROTOCOL, "pickle_p2": 2, "pickle_highest": pickle.HIGHEST_PROTOCOL}[how]
            g = pickle.loads(pickle.dumps(f, protocol=proto))
            w.stats["fields_from_pickle_or_copy"] = w.stats.get("fields_from_pickle_or_copy", 0) + 1
        elif how == "deepcopy":
            import copy
            g = copy.deepcopy(f)
            w.stats["fields_from_pickle_or_copy"] = w.stats.get("fields_from_pickle_or_copy", 0) + 1
        elif how == "copy_copy":
            import copy
            g = copy.copy(f)
            w.stats["fields_from_pickle_or_copy"] = w.stats.get("fields_from_pickle_or_copy", 0) + 1
        else:
            g = leaf(f, pick)
    except (TypeError, NotImplementedError, AttributeError, ValueError):
        return                     # e.g. .imag of a real field: a refused derivation is not a write
    w.fields.append({"f": g, "snap": read(g), "ctor": ent["ctor"] + "." + how, "label": ent["label"] + "." + how})
    w.stats["fields"] += 1


def step_handle(w, how, i, pick):
    if not w.fields:
        return
    ent = w.fields[i % len(w.fields)]
    if how in ("mf_val_dict", "mf_to_dict", "mf_asnumpy_dict"):
        import nifty.cl as ift
        if not isinstance(ent["f"], ift.MultiField):
            return
        try:
            h = {"mf_val_dict": lambda: ent["f"].val, "mf_to_dict": lambda: ent["f"].to_dict(),
                 "mf_asnumpy_dict": lambda: ent["f"].asnumpy()}[how]()
        except (TypeError, AttributeError):
            return
        if isinstance(h, dict):
            w.targets.append({"obj": h, "label": f"handle:{how}", "copy": False})
            w.stats["handles"] += 1
            w.stats["container_handles"] = w.stats.get("container_handles", 0) + 1
        return
    f = leaf(ent["f"], pick)
    copy = False
    try:
        if how == "val":
            h = f.val
        elif how == "raw":
            h = f.raw
        elif how == "asnumpy":
            h = f.asnumpy()
            w.asnumpy_called = True
        elif how == "val.asnumpy":
            h = f.val.asnumpy()
            w.asnumpy_called = True
        elif how == "val.val":
            h = f.val.val
        elif how == "val_slice":
            h = f.val[1:3] if f.val.ndim else f.val[()]
        elif how == "val_view":
            h = f.val.view()
        elif how == "val_reshape":
            h = f.val.reshape(-1)
        elif how == "val_T":
            h = f.val.T
        elif how == "val_real":
            h = f.val.real
        elif how == "val_rw":
            h, copy = f.val_rw(), True
        elif how == "asnumpy_rw":
            h, copy = f.asnumpy_rw(), True
        elif how == "val_flatten_index":
            h = f.val[...]
        else:
            d = ent["f"].to_dict() if hasattr(ent["f"], "to_dict") else {"": f}
            h = d[sorted(d)[0]].val
    except (TypeError, IndexError, AttributeError):
        return
    w.targets.append({"obj": h, "label": f"handle:{how}", "copy": copy})
    w.stats["handles"] += 1


def step_op(w, how, i, pick):
    import nifty.cl as ift
    if not w.fields:
        return
    ent = w.fields[i % len(w.fields)]
    f = leaf(ent["f"], pick)
    if np.iscomplexobj(f.val.val):
        return
    snap = np.array(f.val.val, copy=True)
    probe_arr = np.random.default_rng(7).normal(size=snap.shape)
    probe = ift.makeField(f.domain, probe_arr.copy())
    try:
        if how == "makeOp":
            op = ift.makeOp(f)
            ref = snap * probe_arr
        elif how == "Adder":
            op = ift.Adder(f)
            ref = snap + probe_arr
        elif how == "GaussianEnergy":
            op = ift.GaussianEnergy(data=f)
            ref = np.array(0.5 * np.sum((probe_arr - snap) ** 2))
        else:
            op = ift.makeOp(f).inverse if np.all(snap != 0) else ift.makeOp(f)
            ref = probe_arr / snap if np.all(snap != 0) else snap * probe_arr
    except Exception:
        return
    w.ops.append({"op": op, "probe": probe, "ref": ref, "label": f"{how}({ent['label']})"})
    w.stats["operators"] += 1


def step_touch(w, how, j):
    """A public, non-writing call on a target (source array, wrapper or handle).
    None of these may make a later write succeed."""
    import nifty.cl as ift
    if not w.targets:
        return
    t = w.targets[j % len(w.targets)]
    obj = t["obj"]
    if isinstance(obj, dict):
        return
    isany = isinstance(obj, ift.AnyArray)
    new = None
    try:
        if how == "asnumpy" and isany:
            new = obj.asnumpy()
            w.asnumpy_called = True
        elif how == "val" and isany:
            new = obj.val
        elif how == "copy":
            new, cp = obj.copy(), True
            w.targets.append({"obj": new, "label": "copy-of-" + t["label"], "copy": True})
            new = None
        elif how == "view":
            new = obj.view()
        elif how == "at" and isany:
            new = obj.at(-1)
        elif how == "lock" and isany:
            obj.lock()
        elif how == "readonly" and isany:
            obj.readonly
        elif how == "np_asarray" and not isany:
            new = np.asarray(obj)
        elif how == "getitem":
            new = obj[...]
        elif how == "astype" and not isany:
            new = obj.astype(obj.dtype, copy=False)
        elif how == "reshape":
            new = obj.reshape(obj.shape)
    except (TypeError, ValueError, AttributeError, IndexError):
        return
    w.stats["touches"] = w.stats.get("touches", 0) + 1
    if new is not None and isinstance(new, (np.ndarray, ift.AnyArray)):
        w.targets.append({"obj": new, "label": f"{how}-of-{t['label']}", "copy": t["copy"]})


def step_write(w, how, j, seed):
    """The adversary: one write attempt through target j."""
    import nifty.cl as ift
    if not w.targets:
        return None
    t = w.targets[j % len(w.targets)]
    obj = t["obj"]
    val = float(np.random.default_rng(seed).normal()) + 100.0
    isany = isinstance(obj, ift.AnyArray)
    if isinstance(obj, dict):
        # editing a container obtained from a MultiField: replace / remove / add an entry
        w.stats["writes_attempted"] += 1
        w.stats["container_edits"] = w.stats.get("container_edits", 0) + 1
        keys = sorted(obj)
        kind = ("replace", "pop", "add")[WRITES.index(how) % 3]
        if kind == "replace" and keys:
            old = obj[keys[0]]
            shp = getattr(old, "shape", None) or ()
            obj[keys[0]] = ift.AnyArray(np.full(shp, val)) if isinstance(old, ift.AnyArray) else np.full(shp, val)
        elif kind == "pop" and keys:
            obj.pop(keys[-1])
        else:
            obj["zzz_added"] = np.full((2,), val)
        w.stats["writes_succeeded_on_copy"] += 1
        return {"how": "dict_" + kind, "target": t["label"], "raised": None, "target_type": "dict"}
    w.stats["writes_attempted"] += 1
    w.stats["write_after_asnumpy" if w.asnumpy_called else "write_before_first_asnumpy"] += 1
    raised = None
    try:
        if how == "setitem":
            obj[(0,) * obj.ndim if obj.ndim else ()] = val
        elif how == "setslice":
            obj[...] = val
        elif how == "iadd":
            if isany:
                obj += ift.AnyArray(np.full(obj.shape, val))
            else:
                obj += val
        elif how == "imul_scalar":
            if isany:
                obj *= ift.AnyArray(np.full(obj.shape, 2.0))
            else:
                obj *= 2.0
        elif how == "np_add_out":
            if isany:
                np.add(obj, ift.AnyArray(np.full(obj.shape, val)), out=obj)
            else:
                np.add(obj, val, out=obj)
        elif how == "np_multiply_out_any":
            if isany:
                np.multiply(obj, obj, out=(obj,))
            else:
                np.multiply(obj, 3.0, out=obj)
        elif how == "fill":
            (obj.val if isany else obj).fill(val)
        elif how == "sort":
            a = obj.val if isany else obj
            if a.ndim == 0 or np.iscomplexobj(a):
                a[...] = a + 1
            else:
                a[...] = -np.abs(a) - np.arange(a.size).reshape(a.shape)   # make sure sorting changes something
                a.sort(axis=0)
        elif how == "copyto":
            np.copyto(obj.val if isany else obj, val)
        elif how == "put":
            a = obj.val if isany else obj
            a.put([0], [val]) if a.ndim else a.fill(val)
        elif how == "np_copyto_direct":
            np.copyto(obj, val)
        elif how == "np_putmask_direct":
            np.putmask(obj, np.ones(obj.shape, dtype=bool), val)
        elif how == "np_place_direct":
            np.place(obj, np.ones(obj.shape, dtype=bool), [val])
        elif how == "ufunc_at":
            if obj.ndim == 0:
                np.add(obj, val, out=obj)
            else:
                np.add.at(obj, (0,) * obj.ndim, val)
        else:
            a = obj.val if isany else obj
            a.flat[0] = val
    except (ValueError, TypeError, RuntimeError, NotImplementedError, AttributeError) as e:
        raised = type(e).__name__
    if raised:
        w.stats["writes_raised"] += 1
    elif t["copy"]:
        w.stats["writes_succeeded_on_copy"] += 1
    else:
        w.stats["writes_succeeded_elsewhere"] += 1
    return {"how": how, "target": t["label"], "raised": raised, "target_type": "AnyArray" if isany else "ndarray"}


def check(w, last):
    w.stats["checks"] += 1
    for ent in w.fields:
        via_c = read_via_container(ent["f"])
        if not same(read(ent["f"]), ent["snap"]) or (via_c is not None and not same(via_c, ent["snap"])):
            via = f"{last['target']}:{last['how']}" if last else "no-write"
            raise Violation({"oracle": "field-changed", "ctor": ent["ctor"].split(".")[0],
                             "via": via.split("[")[0] + ("" if "[" not in via else via[via.index("]") + 1:]),
                             "write": last["how"] if last else None,
                             "target_type": last.get("target_type") if last else None},
                            f"field {ent['label']} changed after write {last}")
    for o in w.ops:
        res = o["op"](o["probe"])
        got = np.array(res.val.val)
        if got.shape != np.shape(o["ref"]) or not np.allclose(got, o["ref"], rtol=1e-12, atol=1e-12):
            raise Violation({"oracle": "operator-changed", "op": o["label"].split("(")[0],
                             "via": f"{last['target']}:{last['how']}" if last else "no-write",
                             "write": last["how"] if last else None,
                             "target_type": last.get("target_type") if last else None},
                            f"operator {o['label']} changed meaning after write {last}")


def run_program(prog, stats=None):
    w = World()
    try:
        for st in prog:
            last = None
            k = st["k"]
            if k == "construct":
                step_construct(w, st["ctor"], st["src"], st["seed"], st["two_d"], st.get("prewrap", False))
            elif k == "derive":
                step_derive(w, st["how"], st["i"], st["pick"])
            elif k == "handle":
                step_handle(w, st["how"], st["i"], st["pick"])
            elif k == "op":
                step_op(w, st["how"], st["i"], st["pick"])
            elif k == "touch":
                step_touch(w, st["how"], st["j"])
            elif k == "reconstruct":
                step_reconstruct(w, st["how"], st["j"], st["ctor"])
            else:
                last = step_write(w, st["how"], st["j"], st["seed"])
            check(w, last)
    finally:
        if stats is not None:
            harness.merge_counts(stats, w.stats)


def strategies():
    from hypothesis import strategies as st
    i = st.integers(0, 7)
    construct = st.fixed_dictionaries({"k": st.just("construct"), "ctor": st.sampled_from(CTORS),
                                       "src": st.sampled_from(SRC_KINDS), "seed": st.integers(0, 99),
                                       "two_d": st.booleans(), "prewrap": st.sampled_from([True, True, False])})
    derive = st.fixed_dictionaries({"k": st.just("derive"), "how": st.sampled_from(DERIVES), "i": i, "pick": i})
    handle = st.fixed_dictionaries({"k": st.just("handle"), "how": st.sampled_from(HANDLES), "i": i, "pick": i})
    op = st.fixed_dictionaries({"k": st.just("op"), "how": st.sampled_from(OPS), "i": i, "pick": i})
    write = st.fixed_dictionaries({"k": st.just("write"), "how": st.sampled_from(WRITES), "j": st.integers(0, 15),
                                   "seed": st.integers(0, 99)})
    touch = st.fixed_dictionaries({"k": st.just("touch"), "how": st.sampled_from(TOUCHES), "j": st.integers(0, 15)})
    recon = st.fixed_dictionaries({"k": st.just("reconstruct"), "how": st.sampled_from(RECONS), "j": st.integers(0, 15),
                                   "ctor": st.sampled_from(RECON_CTORS)})
    return st.lists(st.one_of(construct, derive, handle, handle, op, touch, touch, recon, write, write, write),
                    min_size=2, max_size=14)


def hunt(job):
    from hypothesis import HealthCheck, Phase, Verbosity, given, seed, settings
    known = harness.load_known(PROP)
    state = {"runs": 0, "fail": None, "stats": {}, "known": {}, "shapes": set(), "nontrivial": set(), "sample": None}

    def body(prog):
        state["runs"] += 1
        dg = core.digest(json.dumps(prog, sort_keys=True))
        state["shapes"].add(dg)
        if any(s["k"] == "construct" for s in prog) and any(s["k"] == "write" for s in prog):
            state["nontrivial"].add(dg)
            if state["sample"] is None:
                state["sample"] = prog
        try:
            run_program(prog, state["stats"])
        except Violation as v:
            e = harness.match_known(known, v.sig)
            if e is not None:
                state["known"][e["key"]] = state["known"].get(e["key"], 0) + 1
                return
            state["fail"] = {"prog": prog, "sig": v.sig, "detail": v.detail}
            raise
    test = seed(job["hseed"])(settings(max_examples=job["examples"], database=None, deadline=None,
                                       report_multiple_bugs=False, suppress_health_check=list(HealthCheck),
                                       verbosity=Verbosity.quiet, phases=[Phase.generate, Phase.shrink])(
        given(strategies())(body)))
    try:
        test()
    except Violation:
        pass
    except BaseException:  # noqa
        if state["fail"] is None:
            raise
    if state["fail"]:
        sig = state["fail"]["sig"]

        def fails(prog):
            try:
                run_program(prog)
            except Violation as v:
                return v.sig == sig
            except Exception:
                return False
            return False
        state["fail"]["prog"] = harness.ddmin_list(state["fail"]["prog"], fails)
    return {"runs": state["runs"], "fail": state["fail"], "stats": state["stats"], "known": state["known"],
            "shapes": len(state["shapes"]), "nontrivial": sorted(state["nontrivial"]), "sample": state["sample"]}


def replay(path):
    with open(path) as f:
        rep = json.load(f)
    try:
        run_program(rep["program"])
    except Violation as v:
        print("replay signature:", json.dumps(v.sig, sort_keys=True), "| recorded:", json.dumps(rep["signature"], sort_keys=True))
        print("detail:", v.detail)
        print(f"VIOLATION property={PROP} replay={path}" + ("" if v.sig == rep["signature"] else "  (different signature)"))
        return harness.EXIT_VIOLATION
    print("replay: property holds on this tree for the recorded program")
    return harness.EXIT_OK


def main(argv):
    a = harness.parse_args(argv)
    if a.replay:
        return replay(a.replay)
    rep = harness.Report(PROP, a.tier, a.seed, "exploration")
    nproc, nex = (16, 4000) if a.tier == "quick" else (192, 8000)
    jobs = [{"hseed": core.h64(a.seed, "c07", i) % (2**31), "examples": nex} for i in range(nproc)]
    results = harness.pmap(hunt, jobs, chunk=1, hang_s=1500)
    stats, nontriv, runs, samples = {}, set(), 0, []
    for jb, r in zip(jobs, results):
        if r is None:
            continue
        if "harness_error" in r:
            rep.harness_error(r["harness_error"] + " " + r.get("tb", "")[-700:])
            continue
        runs += r["runs"]
        nontriv.update(r["nontrivial"])
        harness.merge_counts(stats, r["stats"])
        if r["sample"] and len(samples) < 2:
            samples.append(r["sample"])
        for k, c in r["known"].items():
            e = next(x for x in rep.known if x["key"] == k)
            rep.known_hits.setdefault(k, [e, 0, None])
            rep.known_hits[k][1] += c
        if r["fail"]:
            f = r["fail"]
            rep.violation(f["sig"], {"engine": "immut+hypothesis/c07", "program": f["prog"], "detail": f["detail"],
                                     "hypothesis_seed": jb["hseed"], "replay_cmd": f"./check {PROP} --replay <this file>"})
    cov = {
        "evaluations": runs, "distinct_nontrivial": len(nontriv),
        "rule": "one evaluation = one generated program of 2-14 steps (construct / derive / take handle / build operator / "
                "write) executed against the real classes with the snapshot model checked after every step; distinct = "
                "distinct program; non-trivial = contains at least one construction and one write",
        "samples": samples or [{"note": "none"}],
        "fault_kinds_fired": {k: stats.get(k, 0) for k in
                              ["writes_attempted", "writes_raised", "writes_succeeded_on_copy", "writes_succeeded_elsewhere",
                               "write_before_first_asnumpy", "write_after_asnumpy"]},
        "probes": {k: stats.get(k, 0) for k in ["fields", "handles", "operators", "checks", "touches",
                                                "fields_from_derived_arrays", "fields_from_pickle_or_copy",
                                                "container_handles", "container_edits"]},
        "real_components": ["nifty.cl Field, MultiField, AnyArray, makeField, makeOp, Adder, GaussianEnergy"],
        "stub_components": ["none - the 'simulator' is the adversarial writer and the snapshot model"],
    }
    return rep.finish(cov, assumptions=[
        "not generated (outside the statement): re-enabling flags.writeable by hand; writing through another alias of the "
        "same memory (e.g. the base of a view that was passed in)",
        "snapshots are taken by a non-perturbing read (AnyArray.val), never asnumpy(), which is itself a generated operation"])
