"""C25 - the classic VI driver resumes after a kill with identical results.

Real code: nifty.cl.optimize_kl, sample-list save/load, pickling, numerics.
Simulated: the file system (SimFS journal), optionally N thread-ranks.
"""
import json
import os
import random
import re

from verifsim import core, crash, harness, sched, simfs

PROP = "C25"
ROOT = "/simfs/c25"
_PRISTINE = None


# --------------------------------------------------------------------------
# workload
# --------------------------------------------------------------------------
def _spec(s, i):
    if isinstance(s, dict):
        return s["a"] if i < s["at"] else s["b"]
    return s


def reset_globals():
    """What a fresh process starts with (DESIGN 1.4)."""
    global _PRISTINE
    import nifty.cl as ift
    from nifty.cl.minimization import optimize_kl as okl
    if _PRISTINE is None:
        import numpy as np
        import pickle
        _PRISTINE = pickle.dumps(([np.random.SeedSequence(42)],
                                  [np.random.default_rng(np.random.SeedSequence(42))]))
    ift.random.setState(_PRISTINE)
    okl._output_directory = None
    okl._save_strategy = None


def make_lh(base, small=False):
    import numpy as np
    import nifty.cl as ift
    if base["model"] == "nl3":
        dom = ift.UnstructuredDomain(3)
        a, b, c = (ift.FieldAdapter(dom, k) for k in "abc")
        # small=True: the likelihood of the early iterations of a run whose parameter space grows later
        model = a * (0.3 * b).exp() + c if not small else a * (0.3 * b).exp()
        d = ift.makeField(dom, np.array([0.3, -1.2, 2.0]))
    else:
        dom = ift.RGSpace(4)
        a, b = (ift.FieldAdapter(dom, k) for k in "ab")
        model = 2.0 * a + b
        d = ift.makeField(dom, np.array([0.7, -0.4, 1.1, 0.2]))
    icov = ift.ScalingOperator(dom, 4., sampling_dtype=float)
    return ift.GaussianEnergy(d, inverse_covariance=icov) @ model


def drive(base, resume, comm=None):
    """One call of the real driver (fresh-process globals, mounted SimFS)."""
    import nifty.cl as ift
    lh = make_lh(base)
    if base.get("grow_at"):
        # a likelihood given as a function of the iteration whose domain gains the key 'c' at iteration grow_at
        # (no transition: the driver initialises the new key itself, from the iteration's random numbers)
        lh_full, lh_small, g = lh, make_lh(base, small=True), base["grow_at"]
        lh = lambda i: lh_small if i < g else lh_full       # noqa: E731
        lh.domain = lh_full.domain
    ic = ift.AbsDeltaEnergyController(1e-6, iteration_limit=10)
    mini = ift.NewtonCG(ift.AbsDeltaEnergyController(1e-6, iteration_limit=4))
    ns = base["n_samples"]
    kw = {}
    if base["geovi"]:
        kw["nonlinear_sampling_minimizer"] = ift.NewtonCG(
            ift.AbsDeltaEnergyController(1e-6, iteration_limit=2))
    if base["transitions"]:
        # the old *samples* (not only the mean) feed the next iteration
        kw["transitions"] = lambda i: (lambda sl: sl.average())
    if base.get("fresh", "true") == "only0":
        kw["fresh_stochasticity"] = lambda i: i == 0
    elif base.get("fresh") == "alt":
        kw["fresh_stochasticity"] = lambda i: i % 2 == 0
    if base.get("initial_position"):
        with ift.random.Context(4711):
            kw["initial_position"] = ift.from_random(lh.domain) * 0.3
    if base["constants"]:
        kw["constants"] = list(base["constants"])
    if base["point_estimates"]:
        kw["point_estimates"] = list(base["point_estimates"])
    sl, mean = ift.optimize_kl(
        lh, base["nit"], (lambda i: _spec(ns, i)) if isinstance(ns, dict) else ns, mini, ic,
        output_directory=ROOT + "/out", resume=resume, save_strategy=base["strategy"],
        plot_energy_history=False, plot_minisanity_history=False,
        return_final_position=True, comm=comm, sanity_checks=base.get("sanity_checks", True), **kw)
    return core.digest(("result", [core.canon(s) for s in sl.iterator()], sl.n_samples, core.canon(mean)))


def run_driver(base, fs, resume):
    """Run on `nranks` simulated ranks (1 rank = plain call with comm=None)."""
    n = base.get("nranks", 1)
    reset_globals()
    with simfs.mounted(fs):
        if n == 1:
            return drive(base, resume)
        sched.install_mpi_stub()
        out = sched.simulate(lambda comm: drive(base, resume, comm), n,
                             {"kind": "seeded", "seed": base.get("sched_seed", 0)},
                             {"mode": "mixed", "seed": base.get("sched_seed", 0)}, step_cap=400000)
        for e in out.exc:
            if e is not None:
                raise e
        if not out.ok():
            raise RuntimeError("mpi: " + ";".join(out.problems()))
        if len(set(out.results)) != 1:
            raise RuntimeError("ranks disagree")
        return out.results[0]


def gen_base(rng, tier):
    model = rng.choice(["nl3", "nl3", "lin2"])
    keys = "abc" if model == "nl3" else "ab"
    ns = rng.choice([0, 1, 2, 2, {"at": 1, "a": 0, "b": 1}, {"at": 1, "a": 2, "b": 1}, {"at": 2, "a": 1, "b": 0}])
    b = {"model": model, "nit": rng.choice([2, 3, 3, 4]), "n_samples": ns,
         "strategy": rng.choice(["all", "latest"]), "geovi": rng.random() < 0.3,
         "transitions": rng.random() < 0.4,
         "constants": [rng.choice(keys)] if rng.random() < 0.25 else [],
         "point_estimates": [rng.choice(keys)] if rng.random() < 0.25 else [],
         "bufsize": rng.choice([1, 64, 4096, 8192, None]), "nranks": 1,
         "fresh": rng.choice(["true", "true", "only0", "alt"]), "initial_position": rng.random() < 0.3,
         "sanity_checks": rng.random() < 0.8}
    if model == "nl3" and rng.random() < 0.2:
        b["grow_at"] = rng.randrange(1, b["nit"])
        b["constants"] = [k for k in b["constants"] if k != "c"]
        b["point_estimates"] = [k for k in b["point_estimates"] if k != "c"]
        b["initial_position"] = False
    if tier == "thorough" and rng.random() < 0.25:
        b["nranks"] = rng.choice([2, 3])
        b["sched_seed"] = rng.randrange(10**6)
    return b


SIMPLE = {"model": "lin2", "nit": 2, "n_samples": 1, "strategy": "all", "geovi": False, "transitions": False,
          "constants": [], "point_estimates": [], "bufsize": 8192, "nranks": 1}


def norm(name):
    return re.sub(r"[0-9]+", "N", name)


_SAMPLE_RE = re.compile(r"/pickle/latest\.([0-9]+|mean)\.pickle$")


def phase(journal, k, torn, strategy):
    """'latest-overwritten-before-marker': the kill falls after some file of the
    only on-disk copy of the sample list (save_strategy='latest') has been
    replaced/removed for iteration i+1 while last_finished_iteration still says i."""
    if strategy != "latest":
        return "clean"
    ops = list(journal[:k]) + ([journal[k]] if torn else [])
    m = None
    for i, op in enumerate(ops):
        tgt = op[2] if op[0] == "rename" else op[1]
        if tgt.endswith("/last_finished_iteration") and op[0] in ("rename", "close"):
            m = i
    if m is None:
        return "clean"
    for op in ops[m + 1:]:
        tgt = op[2] if op[0] == "rename" else op[1]
        if op[0] in ("unlink", "creat", "write", "rename", "trunc") and _SAMPLE_RE.search(tgt):
            return "latest-overwritten-before-marker"
    return "clean"


# --------------------------------------------------------------------------
def resume_on(base, fs, refd):
    try:
        dg = run_driver(base, fs, True)
    except Exception as e:  # noqa
        import traceback
        tb = traceback.extract_tb(e.__traceback__)
        where = next((f"{os.path.basename(f.filename)}:{f.name}" for f in reversed(tb)
                      if "/nifty/" in f.filename), "?")
        return {"oracle": "resume-raised", "exc": type(e).__name__, "where": where}, f"{type(e).__name__}: {e} @ {where}"
    if dg != refd:
        return {"oracle": "resume-result-differs"}, "final samples/mean differ from the uninterrupted run"
    return None, ""


def explore(job):
    base, seed, tier = job["base"], job["seed"], job["tier"]
    only = job.get("only")
    rng = random.Random(core.h64(seed, "torn"))
    ticks0 = simfs.TICKS[0]
    fs0 = simfs.SimFS(ROOT, bufsize=base["bufsize"])
    refd = run_driver(base, fs0, False)
    j = fs0.journal
    out = {"base": base, "journal_len": len(j), "journal": [norm(crash.op_name(o, ROOT)) for o in j],
           "cuts": 0, "unique_states": 0, "fail": [], "windows": {}, "torn": 0, "chain_cuts": 0,
           "insitu_checked": 0, "resumed_ok": 0, "restart_from_scratch": 0, "resume_from_map_file": 0}
    mk = lambda k, t: simfs.SimFS.from_journal(j, k, t, root=ROOT, bufsize=base["bufsize"])  # noqa
    if only is not None:
        jj, fs = j, None
        for idx, (k, torn) in enumerate(only):
            if idx == 0:
                fs = mk(k, torn)
            else:
                prev = fs
                fs = simfs.SimFS.from_journal(jj, k, torn, root=ROOT, bufsize=base["bufsize"])
                # state = prev durable state + prefix of the resume journal
                base_fs = prev._before.clone()
                base_fs.record = False
                for op in jj[:k]:
                    base_fs._apply(op)
                if torn:
                    op = jj[k]
                    base_fs._apply(("write", op[1], op[2], op[3][:torn], op[4]))
                base_fs.record = True
                fs = base_fs
            if idx < len(only) - 1:
                fs._before = fs.clone()
                try:
                    run_driver(base, fs, True)
                except Exception:
                    pass
                jj = fs.journal
        out["replay_listing"] = fs.listing()
        out["replay_sig"], out["replay_detail"] = resume_on(base, fs, refd)
        return out
    seen = {}
    allcuts = crash.cuts(j, rng, 3 if tier == "quick" else 4)
    for (k, torn) in allcuts:
        out["cuts"] += 1
        w = norm(crash.window(j, k, torn, ROOT))
        wk = w.split(":")[0]
        out["windows"][wk] = out["windows"].get(wk, 0) + 1
        if torn:
            out["torn"] += 1
        fs = mk(k, torn)
        dg = fs.state_digest()
        if dg in seen:
            sig, detail = seen[dg]
        else:
            has_marker = (ROOT + "/out/last_finished_iteration") in fs.files
            before = fs.clone()
            sig, detail = resume_on(base, fs, refd)
            seen[dg] = (sig, detail)
            if sig is None:
                out["resumed_ok"] += 1
                if not has_marker:
                    out["restart_from_scratch"] += 1
            if sig is None and tier == "thorough" and fs.journal and rng.random() < 0.15:
                j2 = fs.journal
                k2 = rng.randrange(0, len(j2) + 1)
                t2 = None
                if k2 < len(j2) and j2[k2][0] == "write" and rng.random() < 0.5 and len(j2[k2][3]) > 1:
                    t2 = rng.randrange(1, len(j2[k2][3]))
                fsb = before.clone()
                fsb.record = False
                for op in j2[:k2]:
                    fsb._apply(op)
                if t2:
                    op = j2[k2]
                    fsb._apply(("write", op[1], op[2], op[3][:t2], op[4]))
                fsb.record = True
                out["chain_cuts"] += 1
                sig2, det2 = resume_on(base, fsb, refd)
                if sig2 is not None:
                    w2 = norm(crash.window(j2, k2, t2, ROOT))
                    out["fail"].append({"sig": dict(sig2, window=w2, strategy=base["strategy"], chain=True,
                                                    failure=sig2["oracle"] + (":" + sig2["exc"] if "exc" in sig2 else ""),
                                                    # the phase of a second kill is judged on the whole history of the directory
                                                    phase=phase(list(j[:k]) + ([j[k]] if torn else []) + list(j2),
                                                                k + (1 if torn else 0) + k2, t2, base["strategy"])),
                                        "detail": det2, "chain": [[k, torn], [k2, t2]], "nit": base["nit"]})
        if sig is not None:
            out["fail"].append({"sig": dict(sig, window=w, strategy=base["strategy"],
                                            failure=sig["oracle"] + (":" + sig["exc"] if "exc" in sig else ""),
                                            phase=phase(j, k, torn, base["strategy"])), "detail": detail,
                                "chain": [[k, torn]], "nit": base["nit"]})
    out["unique_states"] = len(seen)
    out["fs_operations"] = simfs.TICKS[0] - ticks0
    killable = [c for c in allcuts if c[0] < len(j)]
    if base.get("nranks", 1) == 1:
        for (k, torn) in rng.sample(killable, min(2 if tier == "quick" else 4, len(killable))):
            def again(fs):
                reset_globals()
                drive(base, False)
            killed, dg = crash.insitu_state(again, ROOT, base["bufsize"], k, torn)
            out["insitu_checked"] += 1
            if not killed or dg != mk(k, torn).state_digest():
                out.setdefault("harness_error", f"in-situ kill at {k}/{torn} disagrees with journal cut")
    reset_globals()
    return out


def bases_for(tier, seed):
    n = 32 if tier == "quick" else 480
    rng = random.Random(core.h64(seed, "c25-bases"))
    bases = []
    for strat in ("all", "latest"):
        for ns in (0, 2):
            for tr in (False, True):
                bases.append(dict(SIMPLE, model="nl3", nit=3, strategy=strat, n_samples=ns, transitions=tr))
    bases.append(dict(SIMPLE, model="nl3", nit=2, n_samples=2, strategy="all", nranks=2, sched_seed=11))
    bases.append(dict(SIMPLE, model="lin2", nit=2, n_samples=1, strategy="latest", nranks=3, sched_seed=12))
    bases.append(dict(SIMPLE, model="nl3", nit=4, n_samples=2, fresh="only0"))
    bases.append(dict(SIMPLE, model="nl3", nit=4, n_samples=1, fresh="alt", strategy="latest"))
    bases.append(dict(SIMPLE, model="nl3", nit=3, n_samples=1, strategy="all", grow_at=2))
    bases.append(dict(SIMPLE, model="nl3", nit=3, n_samples=0, strategy="latest", grow_at=1))
    while len(bases) < n:
        bases.append(gen_base(rng, tier))
    return bases


def minimise(fail, base, seed):
    sig = fail["sig"]
    cands = [dict(SIMPLE, strategy=base["strategy"]),
             dict(SIMPLE, strategy=base["strategy"], n_samples=base["n_samples"], nit=max(2, min(base["nit"], 3))),
             dict(base, nit=2), dict(base, nranks=1), dict(base, geovi=False, constants=[], point_estimates=[]),
             dict(base, transitions=False)]
    for c in cands:
        if c == base:
            continue
        try:
            r = explore({"base": c, "seed": seed, "tier": "quick"})
        except Exception:
            continue
        for f in r["fail"]:
            if f["sig"] == sig:
                return c, f
    return base, fail


def _minimise_job(t):
    k, f, base, seed = t
    b, f2 = minimise(f, base, seed)
    return {"base": b, "fail": f2}


def replay(path):
    with open(path) as f:
        rep = json.load(f)
    r = explore({"base": rep["base"], "seed": 0, "tier": "quick", "only": [tuple(c) for c in rep["chain"]]})
    sig = r["replay_sig"]
    print("journal:", r["journal"])
    print("files at resume:", r["replay_listing"])
    rec = {k: v for k, v in rep["signature"].items() if k in ("oracle", "exc")}
    print("replay signature:", json.dumps(sig, sort_keys=True), "| recorded:", json.dumps(rec, sort_keys=True))
    print("detail:", r["replay_detail"])
    if sig is None:
        print("replay: property holds on this tree for the recorded crash point")
        return harness.EXIT_OK
    same = {k: v for k, v in sig.items() if k in ("oracle", "exc")} == rec
    print(f"VIOLATION property={PROP} replay={path}" + ("" if same else "  (different signature)"))
    return harness.EXIT_VIOLATION


def main(argv):
    a = harness.parse_args(argv)
    if a.replay:
        return replay(a.replay)
    rep = harness.Report(PROP, a.tier, a.seed, "fault_enumeration")
    bases = bases_for(a.tier, a.seed)
    jobs = [{"base": b, "seed": core.h64(a.seed, "c25", i), "tier": a.tier} for i, b in enumerate(bases)]
    results = harness.pmap(explore, jobs, chunk=1, hang_s=900 if a.tier == "quick" else 3000)
    keys = ["cuts", "unique_states", "torn", "chain_cuts", "insitu_checked", "resumed_ok", "restart_from_scratch"]
    tot = {k: 0 for k in keys}
    windows, samples, fails, nbase, bystrat = {}, [], {}, 0, {}
    for jb, r in zip(jobs, results):
        if r is None:
            continue
        if "harness_error" in r:
            rep.harness_error(str(r["harness_error"]) + " " + r.get("tb", "")[-800:])
            if "cuts" not in r:
                continue
        nbase += 1
        for k in keys:
            tot[k] += r[k]
        s = f"{r['base']['strategy']}/{'MAP' if r['base']['n_samples'] == 0 else 'sampled'}/ranks{r['base'].get('nranks', 1)}"
        bystrat[s] = bystrat.get(s, 0) + 1
        harness.merge_counts(windows, r["windows"])
        if len(samples) < 2:
            samples.append({"base": r["base"], "journal": r["journal"], "cuts": r["cuts"],
                            "unique_states": r["unique_states"]})
        for f in r["fail"]:
            fails.setdefault(json.dumps(f["sig"], sort_keys=True), []).append((f, jb))
    picked = {}
    todo = []
    for k, lst in sorted(fails.items()):
        f, jb = min(lst, key=lambda x: (x[0]["nit"], len(x[0]["chain"]), x[0]["chain"][0][0]))
        picked[k] = (f, jb)
        if harness.match_known(rep.known, f["sig"]) is None and len(todo) < 8:
            todo.append((k, f, jb["base"], jb["seed"]))
    mins = harness.pmap(_minimise_job, todo, chunk=1, hang_s=900) if todo else []
    minimised = {t[0]: m for t, m in zip(todo, mins) if m and "harness_error" not in m}
    for k, lst in sorted(fails.items()):
        f, jb = picked[k]
        base, f2 = jb["base"], f
        if k in minimised:
            base, f2 = minimised[k]["base"], minimised[k]["fail"]
        for _ in lst:
            rep.violation(f["sig"], {"engine": "crashsim/c25", "base": base, "chain": f2["chain"],
                                     "detail": f2["detail"], "replay_cmd": f"./check {PROP} --replay <this file>"})
    cov = {
        "evaluations": tot["cuts"] + tot["chain_cuts"],
        "distinct_nontrivial": tot["unique_states"],
        "rule": "one evaluation = one kill point (journal cut, optionally torn write, optionally a chain of two kills) of "
                "one base run followed by a real resume run of the real classic driver; distinct = distinct durable "
                "file-system state per base run; non-trivial = every cut (each one is a crash)",
        "samples": samples, "base_runs": nbase, "base_runs_by_kind": bystrat,
        "exhaustive": False,
        "exhaustive_note": "crash points of each base run are enumerated exhaustively (every journal boundary, i.e. "
                           "before/after every creat/write/close/unlink/rename/mkdir, + torn writes); base runs are sampled",
        "fault_kinds_fired": {"kill_by_window": windows, "torn_writes": tot["torn"], "kill_chains": tot["chain_cuts"]},
        "simulated_fs_operations": sum(r.get("fs_operations", 0) for r in results if isinstance(r, dict)),
        "simulated_time_note": "the fake clock advances 1 s per seam operation; no verdict depends on time",
        "probes": {"resume_ok_states": tot["resumed_ok"], "restart_from_scratch": tot["restart_from_scratch"],
                   "insitu_cross_validated_cuts": tot["insitu_checked"]},
        "real_components": ["nifty.cl.optimize_kl, SampledKLEnergy, ResidualSampleList/SampleList save+load, pickle, numerics"],
        "stub_components": ["file system (SimFS)", "SimComm for the multi-rank base runs (thorough)"],
    }
    return rep.finish(cov, assumptions=[
        "crash = process kill (all ranks at once for multi-rank runs, at a consistent cut of the serialised journal)",
        "a resume is a new process: RNG stack and optimize_kl module globals are reset to their import-time values before every run"])
