"""C27 - the classic VI driver accepts every documented configuration.

Unit of exploration: a *history of invocations in one process* (the driver
keeps module-level state and the statement's last clause is about the
process-global RNG stack), with the environment perturbed between invocations
(output directory kept / removed / switched, RNG stack depth varied).
Pass 1 runs every row of a seeded pairwise covering array; pass 2 lets
Hypothesis generate and shrink histories of configurations.
"""
import itertools
import json
import os
import random
import shutil

import numpy as np

from verifsim import core, harness, simfs

PROP = "C27"

FACTORS = [  # first value = default (what shrinking moves towards)
    ("odir", [None, "A", "B"]),
    ("sanity_checks", [True, False]),
    ("save_strategy", ["latest", "all"]),
    ("plot_energy_history", [False, True]),
    ("plot_minisanity_history", [False, True]),
    ("constants", ["none", "list", "callable"]),
    ("point_estimates", ["none", "list", "callable"]),
    ("n_samples", [2, 0, "callable"]),
    ("nl_sampling", [False, True]),
    ("transitions", [False, True]),
    ("inspect_callback", ["none", "1arg", "2arg"]),
    ("terminate_callback", ["none", "at0", "at1", "at2"]),
    ("fresh_stochasticity", ["true", "callable"]),
    ("dry_run", [False, True]),
    ("return_final_position", [False, True]),
    ("resume", [False, True]),
    ("initial_position", [False, True]),
    ("export_operator_outputs", [False, True]),
    ("total_iterations", [2, 3, 4]),
    # how the user declares the callbacks (inspect / terminate / transitions): all are "functions with one (two) argument(s)"
    ("callback_form", ["plain", "default_arg", "partial", "object", "method", "starargs"]),
    # likelihood_energy, kl_minimizer, sampling_iteration_controller, nonlinear_sampling_minimizer given as functions of the iteration
    ("callable_args", [False, True]),
    ("initial_index", [0, 1]),
]
DEFAULT = {k: v[0] for k, v in FACTORS}
ENV_EVENTS = ["keep", "rmdirs", "push_sseq"]


class Violation(Exception):
    def __init__(self, sig, detail):
        super().__init__(detail)
        self.sig, self.detail = sig, detail


def valid(cfg):
    if cfg["resume"] and cfg["odir"] is None:
        return False
    return True


def fixup(cfg):
    cfg = dict(cfg)
    if cfg["resume"] and cfg["odir"] is None:
        cfg["odir"] = "A"
    return cfg


def covering_array(seed):
    """Greedy seeded pairwise covering array over FACTORS under `valid`."""
    rng = random.Random(core.h64(seed, "c27-array"))
    names = [k for k, _ in FACTORS]
    vals = dict(FACTORS)
    need = set()
    for a, b in itertools.combinations(names, 2):
        for va in vals[a]:
            for vb in vals[b]:
                c = dict(DEFAULT)
                c[a], c[b] = va, vb
                if valid(fixup(c)) and fixup(c)[a] == va and fixup(c)[b] == vb:
                    need.add((a, repr(va), b, repr(vb)))
    rows = []

    def pairs(c):
        return {(a, repr(c[a]), b, repr(c[b])) for a, b in itertools.combinations(names, 2)}
    while need:
        best, bestgain = None, -1
        for _ in range(60):
            c = {k: rng.choice(vals[k]) for k in names}
            # seed the candidate with one uncovered pair
            a, va, b, vb = rng.choice(sorted(need))
            c[a] = next(v for v in vals[a] if repr(v) == va)
            c[b] = next(v for v in vals[b] if repr(v) == vb)
            c = fixup(c)
            gain = len(pairs(c) & need)
            if gain > bestgain:
                best, bestgain = c, gain
        rows.append(best)
        need -= pairs(best)
    return rows


# --------------------------------------------------------------------------
class Env:
    """The process-level environment that persists across invocations."""

    def __init__(self):
        self.scratch = f"/dev/shm/verif-c27-{os.getpid()}"
        shutil.rmtree(self.scratch, ignore_errors=True)
        os.makedirs(self.scratch)
        self.fs = simfs.SimFS("/simfs/c27-unused", passthrough=(self.scratch,))
        self.dirinfo = {}     # dir -> dict about what a previous invocation left

    def path(self, name):
        return None if name is None else f"{self.scratch}/{name}"

    def snapshot(self):
        out = []
        for root, dirs, files in os.walk(self.scratch):
            dirs.sort()
            for f in sorted(files):
                p = os.path.join(root, f)
                st = os.stat(p)
                out.append((p[len(self.scratch):], st.st_size, st.st_mtime_ns))
        return out

    def close(self):
        shutil.rmtree(self.scratch, ignore_errors=True)


def model_parts():
    import nifty.cl as ift
    dom = ift.UnstructuredDomain(3)
    a, b, c = (ift.FieldAdapter(dom, k) for k in "abc")
    op = a * (0.3 * b).exp() + c
    d = ift.makeField(dom, np.array([0.3, -1.2, 2.0]))
    icov = ift.ScalingOperator(dom, 4., sampling_dtype=float)
    return ift.GaussianEnergy(d, inverse_covariance=icov) @ op, dom, a


def shape_callback(form, fn, nargs):
    """Declare `fn` (taking exactly `nargs` positional arguments) the way a user might."""
    import functools
    if form == "plain" or fn is None:
        return fn
    if form == "default_arg":      # last parameter has a default value
        if nargs == 1:
            def cb_d1(x=None):
                return fn(x)
            return cb_d1

        def cb_d2(x, iglobal=None):
            return fn(x, iglobal)
        return cb_d2
    if form == "partial":          # extra leading parameter bound with functools.partial
        if nargs == 1:
            return functools.partial(lambda tag, x: fn(x), "tag")
        return functools.partial(lambda tag, x, i: fn(x, i), "tag")
    if form in ("object", "method"):
        if nargs == 1:
            class C1:
                def __call__(self, x):
                    return fn(x)

                def meth(self, x):
                    return fn(x)
            return C1() if form == "object" else C1().meth

        class C2:
            def __call__(self, x, i):
                return fn(x, i)

            def meth(self, x, i):
                return fn(x, i)
        return C2() if form == "object" else C2().meth
    if form == "starargs":
        if nargs == 1:
            return lambda *args: fn(*args)
        return fn                  # what a bare *args callback receives is not documented: keep the plain form
    raise ValueError(form)


def invoke(env, cfg):
    """One call of the real driver; returns observations."""
    import nifty.cl as ift
    from nifty.cl import random as R
    lh, dom, sig_op = model_parts()
    T = cfg["total_iterations"]
    obs = {"inspect": [], "terminate": [], "transition_calls": [], "means": {}, "exc": None}

    def nsamp(i):
        return {2: 2, 0: 0, "callable": (0 if i == 0 else 1)}[cfg["n_samples"]]

    def consts(i):
        return {"none": [], "list": ["a"], "callable": (["a", "c"] if i == 0 else [])}[cfg["constants"]]

    def pes(i):
        return {"none": [], "list": ["b"], "callable": ([] if i == 0 else ["b"])}[cfg["point_estimates"]]
    obs["nsamp"] = [nsamp(i) for i in range(T)]
    obs["consts"] = [consts(i) for i in range(T)]
    obs["pes"] = [pes(i) for i in range(T)]
    kw = {}
    kw["n_samples"] = nsamp if cfg["n_samples"] == "callable" else cfg["n_samples"]
    kw["constants"] = consts if cfg["constants"] == "callable" else consts(0)
    kw["point_estimates"] = pes if cfg["point_estimates"] == "callable" else pes(0)
    if cfg["nl_sampling"]:
        kw["nonlinear_sampling_minimizer"] = ift.NewtonCG(ift.AbsDeltaEnergyController(1e-6, iteration_limit=2))
    if cfg["transitions"]:
        def trans(i):
            obs["transition_calls"].append(i)
            return None if i == 0 else (lambda sl: sl.average())
        kw["transitions"] = shape_callback(cfg.get("callback_form", "plain"), trans, 1)

    def grab(sl, i):
        m = sl.mean if hasattr(sl, "mean") else sl.local_item(0)
        obs["means"][i] = {k: np.array(v.asnumpy()) for k, v in m.items()}
        obs.setdefault("pe_zero", {})[i] = all(
            np.array_equal(s[k].asnumpy(), m[k].asnumpy()) for s in sl.local_iterator() for k in obs["pes"][i]) \
            if nsamp(i) > 0 else True
        obs.setdefault("n_after", {})[i] = sl.n_samples
    if cfg["inspect_callback"] == "1arg":
        seq = itertools.count()

        def cb1(sl):
            obs["inspect"].append(("1arg", None))
            grab(sl, obs["first_index"] + next(seq))
        kw["inspect_callback"] = shape_callback(cfg.get("callback_form", "plain"), cb1, 1)
    elif cfg["inspect_callback"] == "2arg":
        def cb2(sl, i):
            obs["inspect"].append(("2arg", i))
            grab(sl, i)
        kw["inspect_callback"] = shape_callback(cfg.get("callback_form", "plain"), cb2, 2)
    if cfg["terminate_callback"] != "none":
        at = int(cfg["terminate_callback"][2:])

        def term(i):
            obs["terminate"].append(i)
            return i >= at
        kw["terminate_callback"] = shape_callback(cfg.get("callback_form", "plain"), term, 1)
    if cfg["fresh_stochasticity"] == "callable":
        kw["fresh_stochasticity"] = lambda i: i == 0
    if cfg["initial_position"]:
        with R.Context(123):
            ip = ift.from_random(lh.domain) * 0.2
        kw["initial_position"] = ip
        obs["initial"] = {k: np.array(v.asnumpy()) for k, v in ip.items()}
    if cfg["export_operator_outputs"]:
        kw["export_operator_outputs"] = {"sig": sig_op}
    odir = env.path(cfg["odir"])
    info = env.dirinfo.get(cfg["odir"]) if cfg["odir"] else None
    marker = None
    if odir and os.path.isfile(odir + "/last_finished_iteration"):
        marker = int(open(odir + "/last_finished_iteration").read())
    obs["marker_before"] = marker
    resumed = bool(cfg["resume"] and marker is not None)
    obs["resumed"] = resumed
    obs["first_index"] = (marker + 1) if resumed else cfg.get("initial_index", 0)
    stack_before = list(R._sseq)
    rng_before = list(R._rng)
    snap_before = env.snapshot()
    env.fs.mutations_outside = []
    ic = ift.AbsDeltaEnergyController(1e-6, iteration_limit=10)
    mini = ift.NewtonCG(ift.AbsDeltaEnergyController(1e-6, iteration_limit=3))
    if cfg.get("callable_args"):
        obs["callable_arg_calls"] = []
        lh0, mini0, ic0 = lh, mini, ic

        def lh(i):
            obs["callable_arg_calls"].append(("lh", i))
            return lh0

        def mini(i):
            return mini0

        def ic(i):
            return ic0 if nsamp(i) > 0 or cfg["n_samples"] != 0 else None
        if "nonlinear_sampling_minimizer" in kw:
            nl0 = kw["nonlinear_sampling_minimizer"]
            kw["nonlinear_sampling_minimizer"] = lambda i: nl0 if i % 2 == 0 else None
    if cfg.get("initial_index", 0):
        kw["initial_index"] = cfg["initial_index"]
    with simfs.mounted(env.fs, fake_clock=False):
        try:
            res = ift.optimize_kl(lh, T, kw.pop("n_samples"), mini, ic, output_directory=odir,
                                  sanity_checks=cfg["sanity_checks"], save_strategy=cfg["save_strategy"],
                                  plot_energy_history=cfg["plot_energy_history"],
                                  plot_minisanity_history=cfg["plot_minisanity_history"],
                                  dry_run=cfg["dry_run"], return_final_position=cfg["return_final_position"],
                                  resume=cfg["resume"], **kw)
            obs["result"] = res
        except Exception as e:  # noqa
            import traceback
            tb = traceback.extract_tb(e.__traceback__)
            obs["exc"] = e
            obs["where"] = next((f"{os.path.basename(f.filename)}:{f.name}" for f in reversed(tb)
                                 if "/nifty/" in f.filename), "?")
    obs["stack_after"] = list(R._sseq)
    obs["stack_same"] = (len(R._sseq) == len(stack_before) and all(x is y for x, y in zip(R._sseq, stack_before))
                         and len(R._rng) == len(rng_before) and all(x is y for x, y in zip(R._rng, rng_before)))
    obs["depth"] = (len(stack_before), len(R._sseq))
    # repair the environment so that one violation does not cascade into the next invocation
    if not obs["stack_same"] and not resumed:
        R._sseq[:] = stack_before
        R._rng[:] = rng_before
    obs["snap_before"], obs["snap_after"] = snap_before, env.snapshot()
    obs["mutations"] = list(env.fs.mutations_outside)
    obs["prior_dirinfo"] = info
    return obs


def check(env, cfg, obs, history_pos):
    """Oracle for one invocation."""
    import nifty.cl as ift
    from nifty.cl.minimization.sample_list import SampleListBase
    T = cfg["total_iterations"]
    odir = env.path(cfg["odir"])
    hp = "first" if history_pos == 0 else "later"
    if obs["exc"] is not None:
        raise Violation({"oracle": "raised", "exc": type(obs["exc"]).__name__, "where": obs["where"]},
                        f"{type(obs['exc']).__name__}: {obs['exc']} @ {obs['where']}")
    res = obs["result"]
    if cfg["return_final_position"]:
        if not (isinstance(res, tuple) and len(res) == 2 and isinstance(res[0], SampleListBase)
                and isinstance(res[1], (ift.MultiField, ift.Field))):
            raise Violation({"oracle": "return-type"}, f"{type(res)}")
        sl = res[0]
    else:
        if not isinstance(res, SampleListBase):
            raise Violation({"oracle": "return-type"}, f"{type(res)}")
        sl = res
    first = obs["first_index"]
    term_at = None if cfg["terminate_callback"] == "none" else int(cfg["terminate_callback"][2:])
    if first >= T:
        executed = []
    else:
        last = T - 1 if term_at is None else min(T - 1, max(term_at, first))
        executed = list(range(first, last + 1))
    if cfg["dry_run"]:
        executed_min = []
    else:
        executed_min = executed
    # --- RNG stack (statement: "leaves the global RNG stack as it found it")
    if obs["resumed"]:
        # the driver deliberately replaces the RNG state by the saved one: compare depths only
        if obs["depth"][0] != obs["depth"][1]:
            raise Violation({"oracle": "rng-stack-depth-changed", "resumed": True}, str(obs["depth"]))
    elif not obs["stack_same"]:
        raise Violation({"oracle": "rng-stack-not-restored", "dry_run": cfg["dry_run"],
                         "terminate_callback": term_at is not None},
                        f"depth before/after {obs['depth']}")
    # --- callbacks
    if cfg["inspect_callback"] != "none":
        if len(obs["inspect"]) != len(executed_min):
            raise Violation({"oracle": "inspect-callback-count"}, f"{len(obs['inspect'])} calls, {len(executed_min)} iterations")
        if cfg["inspect_callback"] == "2arg" and [i for _, i in obs["inspect"]] != executed_min:
            raise Violation({"oracle": "inspect-callback-args"}, str(obs["inspect"]))
    if term_at is not None and obs["terminate"] != executed_min:
        raise Violation({"oracle": "terminate-callback-sequence"}, f"{obs['terminate']} vs {executed_min}")
    # --- result consistent with options
    if executed_min:
        ns = obs["nsamp"][executed_min[-1]]
        want = 1 if ns == 0 else 2 * ns
        if sl.n_samples != want:
            raise Violation({"oracle": "n-samples-of-result"}, f"{sl.n_samples} != {want}")
    elif not obs["resumed"]:
        if sl.n_samples != 1:
            raise Violation({"oracle": "n-samples-of-result", "dry_run": cfg["dry_run"]}, f"{sl.n_samples} != 1")
    # --- constants bit-unchanged across their iteration; point estimates carry zero residuals
    if cfg["inspect_callback"] != "none":
        for i in executed_min:
            if not obs["pe_zero"].get(i, True):
                raise Violation({"oracle": "point-estimate-has-residual"}, f"iteration {i}")
            prev = obs["means"].get(i - 1)
            if i == obs["first_index"] and cfg["initial_position"] and not obs["resumed"]:
                prev = obs["initial"]
            if prev is None or (cfg["transitions"] and i > 0):
                continue
            for k in obs["consts"][i]:
                if not np.array_equal(prev[k], obs["means"][i][k]):
                    raise Violation({"oracle": "constant-key-changed"}, f"key {k} iteration {i}")
    # --- files
    before = {p: (s, m) for p, s, m in obs["snap_before"]}
    after = {p: (s, m) for p, s, m in obs["snap_after"]}
    changed = sorted(p for p in set(before) | set(after) if before.get(p) != after.get(p))
    if odir is None:
        if changed or obs["mutations"]:
            raise Violation({"oracle": "writes-without-output-directory", "history": hp},
                            f"changed: {changed[:6]} recorded: {obs['mutations'][:4]}")
        return
    me = "/" + cfg["odir"] + "/"
    foreign = [p for p in changed if not p.startswith(me)]
    if foreign:
        raise Violation({"oracle": "writes-outside-output-directory", "history": hp}, str(foreign[:6]))
    files = {p[len(me):] for p in after if p.startswith(me)}
    if cfg["dry_run"]:
        new = [p for p in changed if "/pickle/" in p and "nifty_random_state" not in p]
        if new:
            raise Violation({"oracle": "dry-run-wrote-samples"}, str(new[:5]))
        return
    if executed_min:
        lastit = executed_min[-1]
        mk = open(odir + "/last_finished_iteration").read() if "last_finished_iteration" in files else None
        if mk != str(lastit):
            raise Violation({"oracle": "marker-wrong"}, f"last_finished_iteration={mk!r}, last finished {lastit}")
        for i in executed_min:
            nm = "latest" if cfg["save_strategy"] == "latest" else f"iteration_{i}"
            need = [f"pickle/{nm}.0.pickle", f"pickle/energy_history_{nm}", f"pickle/minisanity_history_{nm}"]
            if obs["nsamp"][i] > 0:
                need.append(f"pickle/{nm}.mean.pickle")
            if cfg["plot_energy_history"]:
                need.append(f"energy_history/energy_history_{nm}.png")
            if cfg["plot_minisanity_history"]:
                need.append(f"minisanity_history/minisanity_history_{nm}.png")
            if cfg["export_operator_outputs"]:
                need.append(f"sig/{nm}.hdf5")
            miss = [f for f in need if f not in files]
            if miss:
                raise Violation({"oracle": "expected-file-missing", "kind": miss[0].split("/")[0]},
                                f"iteration {i}: {miss}")
        for f in ("minisanity.txt", "counting_report.txt", "pickle/nifty_random_state"):
            if f not in files:
                raise Violation({"oracle": "expected-file-missing", "kind": f}, f)


def apply_env_event(env, ev, state):
    from nifty.cl import random as R
    if state.get("pushed"):
        R.pop_sseq()
        state["pushed"] = False
    if ev == "rmdirs":
        for d in ("A", "B"):
            shutil.rmtree(env.path(d), ignore_errors=True)
    elif ev == "push_sseq":
        R.push_sseq_from_seed(777)
        state["pushed"] = True


def reset_process_globals():
    import pickle
    import nifty.cl as ift
    from nifty.cl.minimization import optimize_kl as okl
    ift.random.setState(pickle.dumps(([np.random.SeedSequence(42)],
                                      [np.random.default_rng(np.random.SeedSequence(42))])))
    okl._output_directory = None
    okl._save_strategy = None


def run_history(hist, stats=None):
    """hist: list of {'cfg':..., 'env': event applied before the invocation}."""
    reset_process_globals()
    env = Env()
    state = {}
    try:
        for pos, step in enumerate(hist):
            if "split_at" in step:
                run_split(step["cfg"], step["split_at"], stats)
                reset_process_globals()
                state["pushed"] = False          # the reset dropped an extra stack entry, if there was one
                env.dirinfo.clear()
                continue
            cfg = fixup(dict(DEFAULT, **step["cfg"]))
            ev = step.get("env", "keep")
            if cfg["resume"] and ev == "push_sseq":
                ev = "keep"
            apply_env_event(env, ev, state)
            if ev == "rmdirs":
                env.dirinfo.clear()
            if cfg["odir"] is not None:
                from nifty.cl import random as R
                prev, pdepth = env.dirinfo.get(cfg["odir"], (None, None))
                if cfg["resume"] and prev is not None and (prev != cfg["save_strategy"] or pdepth != len(R._sseq)):
                    # resuming a directory written with the other save strategy, or whose saved RNG state was
                    # taken at another stack depth (a different script), is a user error, not a configuration
                    shutil.rmtree(env.path(cfg["odir"]), ignore_errors=True)
                    if stats is not None:
                        stats["resume_dir_reset_strategy_mismatch"] = stats.get("resume_dir_reset_strategy_mismatch", 0) + 1
                    prev = None
                if prev is None or not cfg["resume"]:
                    # a run without resume rewrites the saved RNG state (also a dry run); a dry run writes neither
                    # samples nor the marker, so the save strategy an earlier run left stays authoritative
                    strat = prev if (cfg["dry_run"] and prev is not None) else cfg["save_strategy"]
                    env.dirinfo[cfg["odir"]] = (strat, len(R._sseq))
            obs = invoke(env, cfg)
            if stats is not None:
                stats["invocations"] = stats.get("invocations", 0) + 1
                stats["env_" + ev] = stats.get("env_" + ev, 0) + 1
                if obs["resumed"]:
                    stats["resumed_from_marker"] = stats.get("resumed_from_marker", 0) + 1
                if pos > 0:
                    stats["non_first_invocations"] = stats.get("non_first_invocations", 0) + 1
            check(env, cfg, obs, pos)
    finally:
        from nifty.cl import random as R
        if state.get("pushed"):
            try:
                R.pop_sseq()
            except Exception:
                pass
        env.close()
        reset_process_globals()


def final_digest(cfg, obs):
    res = obs["result"]
    sl = res[0] if cfg["return_final_position"] else res
    parts = [core.canon(s) for s in sl.iterator()]
    if cfg["return_final_position"]:
        parts.append(core.canon(res[1]))
    return core.digest(parts)


def run_split(cfg, k, stats=None):
    """Metamorphic oracle for the documented `resume` option: a run that is
    stopped by terminate_callback after iteration k and continued with
    resume=True must end with the same samples as the uninterrupted run with
    the same options ("returns results consistent with the chosen options")."""
    cfg = fixup(dict(DEFAULT, **cfg))
    cfg.update(odir="A", dry_run=False, terminate_callback="none", resume=False)
    T = cfg["total_iterations"]
    k = k % (T - 1)
    env = Env()
    try:
        reset_process_globals()
        o_u = invoke(env, dict(cfg, odir="B"))
        check(env, dict(cfg, odir="B"), o_u, 0)
        reset_process_globals()
        c1 = dict(cfg, terminate_callback=f"at{k}")
        o1 = invoke(env, c1)
        check(env, c1, o1, 0)
        c2 = dict(cfg, resume=True)
        o2 = invoke(env, c2)
        check(env, c2, o2, 1)
        if stats is not None:
            stats["invocations"] = stats.get("invocations", 0) + 3
            stats["split_resume_comparisons"] = stats.get("split_resume_comparisons", 0) + 1
        if final_digest(cfg, o_u) != final_digest(cfg, o2):
            raise Violation({"oracle": "stopped-and-resumed-run-differs-from-uninterrupted",
                             "fresh_stochasticity": cfg["fresh_stochasticity"]},
                            f"terminate after iteration {k}, then resume=True; total_iterations={T}")
    finally:
        env.close()
        reset_process_globals()


# --------------------------------------------------------------------------
def minimise_cfg(hist, sig):
    """Reset factors to their defaults one at a time while the same signature recurs."""
    def fails(h):
        try:
            run_history(h)
        except Violation as v:
            return v.sig == sig
        except Exception:
            return False
        return False
    cur = [dict(s, cfg=dict(s["cfg"])) for s in hist]
    # drop invocations
    i = 0
    while i < len(cur) and len(cur) > 1:
        cand = cur[:i] + cur[i + 1:]
        if fails(cand):
            cur = cand
        else:
            i += 1
    for s in cur:
        if "split_at" not in s and s.get("env", "keep") != "keep":
            old = s["env"]
            s["env"] = "keep"
            if not fails(cur):
                s["env"] = old
        for k in list(s["cfg"]):
            if s["cfg"][k] != DEFAULT[k]:
                old = s["cfg"][k]
                s["cfg"][k] = DEFAULT[k]
                if not fails(cur):
                    s["cfg"][k] = old
        s["cfg"] = {k: v for k, v in s["cfg"].items() if v != DEFAULT[k]}
    return cur


def run_rows(job):
    """Pass 1: covering-array rows, each as a one-invocation history, then as one long history."""
    known = harness.load_known(PROP)
    out = {"fails": [], "stats": {}, "known": {}, "ran": 0}
    for row in job["rows"]:
        hist = [{"cfg": {k: v for k, v in row.items() if v != DEFAULT[k]}, "env": "keep"}]
        out["ran"] += 1
        try:
            run_history(hist, out["stats"])
        except Violation as v:
            e = harness.match_known(known, v.sig)
            if e is not None:
                out["known"][e["key"]] = out["known"].get(e["key"], 0) + 1
            else:
                out["fails"].append({"hist": hist, "sig": v.sig, "detail": v.detail})
    return out


def strategies():
    from hypothesis import strategies as st
    cfg = st.fixed_dictionaries({k: st.sampled_from(v) for k, v in FACTORS})
    # plots are slow: keep them rare in generated histories (pass 1 covers every pair with them)
    cfg = cfg.map(lambda c: dict(c, plot_energy_history=c["plot_energy_history"] and c["total_iterations"] == 2 and c["odir"] == "B",
                                 plot_minisanity_history=c["plot_minisanity_history"] and c["total_iterations"] == 2 and c["odir"] == "B"))
    step = st.fixed_dictionaries({"cfg": cfg, "env": st.sampled_from(ENV_EVENTS)})
    nopl = cfg.map(lambda c: dict(c, plot_energy_history=False, plot_minisanity_history=False,
                                  export_operator_outputs=False, total_iterations=max(3, c["total_iterations"])))
    split = st.fixed_dictionaries({"cfg": nopl, "split_at": st.integers(0, 2)})
    return st.lists(st.one_of(step, step, step, split), min_size=1, max_size=4)


def hunt(job):
    from hypothesis import HealthCheck, Phase, Verbosity, given, seed, settings
    known = harness.load_known(PROP)
    state = {"runs": 0, "fail": None, "stats": {}, "known": {}, "shapes": set(), "sample": None}

    def body(hist):
        state["runs"] += 1
        hist = [dict({"cfg": {k: v for k, v in fixup(s["cfg"]).items() if v != DEFAULT[k]}},
                     **({"split_at": s["split_at"]} if "split_at" in s else {"env": s["env"]})) for s in hist]
        state["shapes"].add(core.digest(json.dumps(hist, sort_keys=True)))
        if state["sample"] is None and len(hist) >= 2:
            state["sample"] = hist
        try:
            run_history(hist, state["stats"])
        except Violation as v:
            e = harness.match_known(known, v.sig)
            if e is not None:
                state["known"][e["key"]] = state["known"].get(e["key"], 0) + 1
                return
            state["fail"] = {"hist": hist, "sig": v.sig, "detail": v.detail}
            raise
    test = seed(job["hseed"])(settings(max_examples=job["examples"], database=None, deadline=None,
                                       report_multiple_bugs=False, suppress_health_check=list(HealthCheck),
                                       verbosity=Verbosity.quiet, phases=[Phase.generate])(
        given(strategies())(body)))
    try:
        test()
    except Violation:
        pass
    except BaseException:  # noqa
        if state["fail"] is None:
            raise
    return {"runs": state["runs"], "fails": [state["fail"]] if state["fail"] else [], "stats": state["stats"],
            "known": state["known"], "shapes": sorted(state["shapes"]), "sample": state["sample"]}


def _min_job(f):
    return {"hist": minimise_cfg(f["hist"], f["sig"]), "sig": f["sig"], "detail": f["detail"]}


def replay(path):
    with open(path) as f:
        rep = json.load(f)
    try:
        run_history(rep["history"])
    except Violation as v:
        print("replay signature:", json.dumps(v.sig, sort_keys=True), "| recorded:", json.dumps(rep["signature"], sort_keys=True))
        print("detail:", v.detail)
        print(f"VIOLATION property={PROP} replay={path}" + ("" if v.sig == rep["signature"] else "  (different signature)"))
        return harness.EXIT_VIOLATION
    print("replay: property holds on this tree for the recorded history")
    return harness.EXIT_OK


def main(argv):
    a = harness.parse_args(argv)
    if a.replay:
        return replay(a.replay)
    rep = harness.Report(PROP, a.tier, a.seed, "exploration")
    rows = covering_array(a.seed)
    nw = harness.nworkers()
    jobs1 = [{"rows": rows[i::nw]} for i in range(nw) if rows[i::nw]]
    nproc, nex = (16, 50) if a.tier == "quick" else (64, 300)
    jobs2 = [{"hseed": core.h64(a.seed, "c27", i) % (2**31), "examples": nex} for i in range(nproc)]
    r1 = harness.pmap(run_rows, jobs1, chunk=1, hang_s=1500)
    r2 = harness.pmap(hunt, jobs2, chunk=1, hang_s=1500)
    stats, fails, shapes, sample = {}, [], set(), None
    nrows = nhist = 0
    for r in r1 + r2:
        if r is None:
            continue
        if "harness_error" in r:
            rep.harness_error(r["harness_error"] + " " + r.get("tb", "")[-700:])
            continue
        harness.merge_counts(stats, r["stats"])
        nrows += r.get("ran", 0)
        nhist += r.get("runs", 0)
        shapes.update(r.get("shapes", []))
        sample = sample or r.get("sample")
        for k, c in r["known"].items():
            e = next(x for x in rep.known if x["key"] == k)
            rep.known_hits.setdefault(k, [e, 0, None])
            rep.known_hits[k][1] += c
        fails.extend(r["fails"])
    bysig = {}
    for f in fails:
        bysig.setdefault(json.dumps(f["sig"], sort_keys=True), []).append(f)
    todo = [min(v, key=lambda f: len(json.dumps(f["hist"]))) for k, v in sorted(bysig.items())][:12]
    mins = harness.pmap(_min_job, todo, chunk=1, hang_s=1500) if todo else []
    for f, m in zip(todo, mins):
        if not isinstance(m, dict) or "harness_error" in m:
            m = f
        for _ in bysig[json.dumps(f["sig"], sort_keys=True)]:
            rep.violation(f["sig"], {"engine": "drivercfg/c27", "history": m["hist"], "detail": f["detail"],
                                     "replay_cmd": f"./check {PROP} --replay <this file>"})
    cov = {
        "evaluations": nrows + nhist,
        "distinct_nontrivial": len(rows) + len(shapes),
        "rule": "one evaluation = one history of driver invocations in one process: pass 1 = each row of the seeded "
                "pairwise covering array as a one-invocation history; pass 2 = Hypothesis-generated histories of 1-4 "
                "invocations with environment events (keep / remove output directories / extra RNG-stack entry) in between; "
                "distinct = distinct (configuration, event) sequence; every history runs the real driver, hence non-trivial",
        "samples": [{"covering_array_row": rows[0]}, {"history": sample}],
        "covering_array_rows": len(rows), "pairwise_complete": True, "hypothesis_histories": nhist,
        "invocations": stats.get("invocations", 0),
        "fault_kinds_fired": {k: v for k, v in stats.items() if k.startswith("env_")},
        "probes": {"resumed_from_marker": stats.get("resumed_from_marker", 0),
                   "non_first_invocations": stats.get("non_first_invocations", 0)},
        "real_components": ["nifty.cl.optimize_kl and everything below it; matplotlib (Agg) and h5py write to a tmpfs scratch directory"],
        "stub_components": ["recording pass-through layer over builtins.open/os.* (SimFS in pass-through mode)"],
    }
    return rep.finish(cov, assumptions=[
        "weakest fit of the claimed set: the quantifier is over configurations; the simulator contributes invocation "
        "histories, environment perturbation between invocations and the recording file-system layer, no fault injection",
        "after a resume that loads a saved RNG state only the stack depth is compared",
        "the small model is valid for every option combination generated"])
