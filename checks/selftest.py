"""./check selftest --smoke | --determinism | --mutants [--only SUBSTR] [--dir DIR]

--mutants: sensitivity self-test.  For every patch in /verif/mutants (or DIR)
a scratch worktree of /repo's HEAD is created on /dev/shm, the patch applied,
the quick check of the property named by the file prefix is run against it
(VERIF_REPO), the outcome recorded, and the worktree removed.
"""
import glob
import json
import os
import shutil
import subprocess
import sys
import time

VERIF = os.path.dirname(os.path.dirname(os.path.abspath(__file__)))


def smoke():
    from verifsim import sched
    from nifty.cl.utilities import allreduce_sum
    t0 = time.time()
    out = sched.simulate(lambda c: allreduce_sum([float(c.Get_rank())], c), 3,
                         {"kind": "seeded", "seed": 1}, {"mode": "rendezvous"})
    assert out.ok() and out.results == [3.0, 3.0, 3.0], (out.problems(), out.results)
    print(f"smoke ok ({time.time() - t0:.2f}s)")
    return 0


def run_mutant(patch, tier="quick", prop=None, keep=False):
    name = os.path.basename(patch)[:-len(".patch")] if patch.endswith(".patch") else os.path.basename(os.path.dirname(patch))
    prop = prop or name.split("_")[0]
    wt = f"/dev/shm/verif-mut-{name}-{os.getpid()}"
    out = f"/dev/shm/verif-mut-out-{name}-{os.getpid()}"
    subprocess.run(["git", "-C", "/repo", "worktree", "remove", "--force", wt], capture_output=True)
    shutil.rmtree(wt, ignore_errors=True)
    r = subprocess.run(["git", "-C", "/repo", "worktree", "add", "-q", "--detach", wt, "HEAD"], capture_output=True, text=True)
    if r.returncode:
        return {"mutant": name, "property": prop, "outcome": "setup-failed", "detail": r.stderr[-300:]}
    try:
        r = subprocess.run(["git", "-C", wt, "apply", "--whitespace=nowarn", os.path.abspath(patch)], capture_output=True, text=True)
        if r.returncode:
            return {"mutant": name, "property": prop, "outcome": "patch-does-not-apply", "detail": r.stderr[-300:]}
        env = dict(os.environ, VERIF_REPO=wt, VERIF_OUT=out)
        t0 = time.time()
        r = subprocess.run([os.path.join(VERIF, "check"), prop, "--tier", tier], env=env, capture_output=True, text=True,
                           timeout=3600)
        lines = [l for l in r.stdout.splitlines() if l.startswith(("VIOLATION", "  signature", "HARNESS-ERROR", "OK "))]
        outcome = {0: "SURVIVED", 1: "killed", 2: "harness-error"}.get(r.returncode, f"exit-{r.returncode}")
        sigs = [l.strip() for l in lines if l.startswith("  signature")][:4]
        res = {"mutant": name, "property": prop, "outcome": outcome, "wall_s": round(time.time() - t0, 1),
               "signatures": sigs, "tail": lines[-3:] if outcome != "killed" else []}
        if outcome == "killed":
            # the minimised replay file must reproduce the violation in a fresh process
            rp = next((l.split("replay=")[1].strip() for l in r.stdout.splitlines() if l.startswith("VIOLATION")), None)
            if rp:
                r2 = subprocess.run([os.path.join(VERIF, "check"), prop, "--replay", rp], env=env, capture_output=True,
                                    text=True, timeout=1800)
                res["replay_reproduced"] = (r2.returncode == 1 and "VIOLATION" in r2.stdout
                                            and "different signature" not in r2.stdout)
                if not res["replay_reproduced"]:
                    res["replay_tail"] = (r2.stdout + r2.stderr)[-400:]
        return res
    finally:
        if not keep:
            subprocess.run(["git", "-C", "/repo", "worktree", "remove", "--force", wt], capture_output=True)
            shutil.rmtree(wt, ignore_errors=True)
            shutil.rmtree(out, ignore_errors=True)


def mutants(argv):
    d = os.path.join(VERIF, "mutants")
    only = None
    tier = "quick"
    for i, a in enumerate(argv):
        if a == "--only":
            only = argv[i + 1]
        if a == "--dir":
            d = argv[i + 1]
        if a == "--tier":
            tier = argv[i + 1]
    patches = sorted(glob.glob(os.path.join(d, "*.patch")) + glob.glob(os.path.join(d, "*", "patch.diff")))
    if only:
        patches = [p for p in patches if only in p]
    res = []
    for p in patches:
        prop = None
        meta = os.path.join(os.path.dirname(p), "meta.json")
        if p.endswith("patch.diff") and os.path.exists(meta):
            prop = json.load(open(meta)).get("property")
        r = run_mutant(p, tier, prop)
        res.append(r)
        print(f"{r['outcome']:>20}  {r['property']}  {r['mutant']}  {r.get('wall_s', '')}s  replay={r.get('replay_reproduced')}  {r.get('signatures', r.get('detail', ''))}", flush=True)
    path = os.path.join(VERIF, "evidence", "selftest_mutants.json" if "seeded" not in d else "selftest_seeded.json")
    for i, a in enumerate(argv):
        if a == "--out":            # several partial runs in parallel write to files of their own; merged afterwards
            path = argv[i + 1]
    prev = []
    if only and os.path.exists(path):
        prev = [x for x in json.load(open(path))["results"] if x["mutant"] not in {r["mutant"] for r in res}]
    with open(path, "w") as f:
        json.dump({"tier": tier, "results": sorted(prev + res, key=lambda x: x["mutant"])}, f, indent=1)
    eq = {}
    eqp = os.path.join(d, "EQUIVALENT.json")
    if os.path.exists(eqp):
        eq = json.load(open(eqp))
    for r in res:
        if r["outcome"] == "SURVIVED" and r["mutant"] in eq:
            r["outcome"] = "survived-equivalent"
            r["why_equivalent"] = eq[r["mutant"]]
    with open(path, "w") as f:
        json.dump({"tier": tier, "results": sorted(prev + res, key=lambda x: x["mutant"])}, f, indent=1)
    surv = [r["mutant"] for r in res if r["outcome"] not in ("killed", "survived-equivalent")]
    print(f"{len(res) - len(surv)}/{len(res)} killed; not killed: {surv}")
    return 0


def main(argv):
    if "--smoke" in argv or not argv:
        return smoke()
    if "--determinism" in argv:
        from checks import selftest_determinism
        return selftest_determinism.main(argv)
    if "--mutants" in argv:
        return mutants(argv)
    print("unknown selftest", argv)
    return 2
