"""./check selftest --smoke | --determinism | --mutants"""
import sys
import time


def smoke():
    from verifsim import sched
    from nifty.cl.utilities import allreduce_sum
    t0 = time.time()
    out = sched.simulate(lambda c: allreduce_sum([float(c.Get_rank())], c), 3,
                         {"kind": "seeded", "seed": 1}, {"mode": "rendezvous"})
    assert out.ok() and out.results == [3.0, 3.0, 3.0], (out.problems(), out.results)
    print(f"smoke ok ({time.time() - t0:.2f}s)")
    return 0


def main(argv):
    if "--smoke" in argv or not argv:
        return smoke()
    if "--determinism" in argv:
        from checks import selftest_determinism
        return selftest_determinism.main(argv)
    print("unknown selftest", argv)
    return 2
