"""Determinism self-test: the same seed must give the same trace / result
digests (1) twice in one process, (2) in a fresh interpreter under another
PYTHONHASHSEED, (3) with 1 and with many pool workers.

  ./check selftest --determinism [--n N]
  (internal)  ./check selftest --determinism --emit ENGINE N SEED
"""
import json
import os
import subprocess
import sys

VERIF = os.path.dirname(os.path.dirname(os.path.abspath(__file__)))
ENGINES = ["c23", "c22", "c25", "c24", "c26", "c07", "c21c", "c27"]


def spread(items, n):
    """n items spread evenly over the whole list (first and last included)."""
    if len(items) <= n:
        return list(items)
    return [items[round(i * (len(items) - 1) / (n - 1))] for i in range(n)]


def emit(engine, n, seed):
    from verifsim import core, harness
    out = []
    if engine == "c23":
        from checks import c23
        cases, _ = c23.cases_for("quick", seed)
        for c in spread(cases, n):
            r = c23.run_case(c)
            out.append([r["trace_digest"], json.dumps(r["sig"], sort_keys=True), r["steps"]])
    elif engine == "c22":
        from checks import c22
        cases = [c for c in c22.cases_for("quick", seed) if c["n"] > 1]
        # evenly over all scripts (W1..W5), so that driver runs, HDF5 exports and split runs are included
        for c in spread(cases, n):
            r = c22.run_case(c)
            out.append([r["trace_digest"], json.dumps(r["sig"], sort_keys=True), r["steps"]])
    elif engine == "c25":
        from checks import c25
        bases = c25.bases_for("quick", seed)
        for i, b in enumerate(bases[10:11] + bases[14:14 + n - 1]):     # one fixed multi-rank base + seeded ones
            r = c25.explore({"base": b, "seed": core.h64(seed, "det", i), "tier": "quick"})
            out.append([r["journal"], r["cuts"], r["unique_states"], sorted(json.dumps(f["sig"], sort_keys=True) for f in r["fail"])])
    elif engine == "c24":
        from checks import c24
        bases = c24.bases_for("quick", seed)
        for i, b in enumerate(bases[4:4 + n]):
            r = c24.explore({"base": b, "seed": core.h64(seed, "det", i), "tier": "quick"})
            out.append([r["journal"], r["cuts"], r["unique_states"], sorted(json.dumps(f["sig"], sort_keys=True) for f in r["fail"])])
    elif engine == "c26":
        from checks import c26
        for i in range(n):
            r = c26.hunt({"hseed": core.h64(seed, "det26", i) % (2**31), "examples": 12})
            out.append([r["runs"], r["phases"], r["digests"], r["fail"] is not None])
    elif engine == "c07":
        from checks import c07
        for i in range(n):
            r = c07.hunt({"hseed": core.h64(seed, "det07", i) % (2**31), "examples": 60})
            out.append([r["runs"], r["shapes"], r["nontrivial"], r["stats"], r["fail"] is not None])
    elif engine == "c21c":
        from checks import c21
        for i in range(n):
            r = c21.hunt({"hseed": core.h64(seed, "det21", i) % (2**31), "examples": 60})
            out.append([r["runs"], r["events"], r["shapes"], r["fail"] is not None])
    elif engine == "c27":
        from checks import c27
        rows = c27.covering_array(seed)
        out.append([core.digest(json.dumps(rows, sort_keys=True)), len(rows)])
        for i in range(min(n, 2)):
            r = c27.hunt({"hseed": core.h64(seed, "det27", i) % (2**31), "examples": 4})
            out.append([r["runs"], r["shapes"], r["stats"], len(r["fails"])])
    print("DETRESULT " + json.dumps({"engine": engine, "digest": core.digest(json.dumps(out, sort_keys=True)), "n": len(out)}))
    return 0


def spawn(engine, n, seed, hashseed, workers):
    env = dict(os.environ, PYTHONHASHSEED=str(hashseed), VERIF_WORKERS=str(workers))
    p = subprocess.run([os.path.join(VERIF, "check"), "selftest", "--determinism", "--emit", engine, str(n), str(seed)],
                       env=env, capture_output=True, text=True, timeout=3000)
    for l in p.stdout.splitlines():
        if l.startswith("DETRESULT "):
            return json.loads(l[len("DETRESULT "):])
    return {"engine": engine, "error": (p.stdout + p.stderr)[-800:]}


def main(argv):
    if "--emit" in argv:
        i = argv.index("--emit")
        return emit(argv[i + 1], int(argv[i + 2]), int(argv[i + 3]))
    n = 12
    if "--n" in argv:
        n = int(argv[argv.index("--n") + 1])
    seeds = [0, 1, 2] if "--seeds" not in argv else [int(x) for x in argv[argv.index("--seeds") + 1].split(",")]
    from concurrent.futures import ThreadPoolExecutor
    jobs = []
    for e in ENGINES:
        nn = n if e in ("c23", "c22") else max(2, n // 4)
        for s in seeds:
            for hs, w in ((0, 16), (0, 16), (987654321, 1), (31337, 4)):
                jobs.append((e, nn, s, hs, w))
    with ThreadPoolExecutor(8) as ex:
        res = list(ex.map(lambda j: spawn(*j), jobs))
    bad = 0
    table = {}
    for j, r in zip(jobs, res):
        key = (j[0], j[2])
        if "error" in r:
            print("HARNESS-ERROR: determinism worker", j, r["error"])
            bad += 1
            continue
        table.setdefault(key, []).append((j[3], j[4], r["digest"], r["n"]))
    runs = 0
    for key, lst in sorted(table.items()):
        ds = {d for _, _, d, _ in lst}
        runs += sum(x[3] for x in lst)
        status = "ok" if len(ds) == 1 else "NONDETERMINISTIC"
        if len(ds) != 1:
            bad += 1
        print(f"{status:>16}  engine={key[0]} seed={key[1]}  " + " ".join(f"[hs={h} w={w} {d[:8]}]" for h, w, d, _ in lst))
    path = os.path.join(VERIF, "evidence", "selftest_determinism.json")
    with open(path, "w") as f:
        json.dump({"engines": ENGINES, "seeds": seeds, "configs": "2x(PYTHONHASHSEED=0,workers=16), (987654321,1), (31337,4)",
                   "case_runs_compared": runs, "nondeterministic_groups": bad,
                   "table": {f"{k[0]}/{k[1]}": [list(x) for x in v] for k, v in sorted(table.items())}}, f, indent=1)
    print("determinism:", "OK" if not bad else f"{bad} problems")
    return 0 if not bad else 2
