"""Fresh-interpreter worker for C21(a): python c21_worker.py <workload> <param>
prints one JSON line {"parts": {name: digest}, "inproc_equal": bool}."""
import gc
import json
import os
import sys

sys.path.insert(0, os.path.dirname(os.path.dirname(os.path.abspath(__file__))))
from verifsim import core, harness  # noqa: E402


def cl_run(param, geovi, ns):
    import numpy as np
    import nifty.cl as ift
    dom = ift.UnstructuredDomain(3)
    # four keys so that set-ordered key handling (constants / point estimates) matters
    a, b, c, d_ = (ift.FieldAdapter(dom, k) for k in ("alpha", "beta", "gamma", "delta"))
    op = a * (0.3 * b).exp() + c + 0.5 * d_
    data = ift.makeField(dom, np.array([0.3, -1.2, 2.0]) + 0.01 * param)
    lh = ift.GaussianEnergy(data, inverse_covariance=ift.ScalingOperator(dom, 4., sampling_dtype=float)) @ op
    ic = ift.AbsDeltaEnergyController(1e-6, iteration_limit=10)
    mini = ift.NewtonCG(ift.AbsDeltaEnergyController(1e-6, iteration_limit=3))
    kw = {}
    if geovi:
        kw["nonlinear_sampling_minimizer"] = ift.NewtonCG(ift.AbsDeltaEnergyController(1e-6, iteration_limit=2))
    with ift.random.Context(1000 + param):
        sl, mean = ift.optimize_kl(lh, 2, ns, mini, ic, output_directory=None, return_final_position=True,
                                   constants=["alpha", "gamma"], point_estimates=["gamma", "delta"],
                                   plot_energy_history=False, plot_minisanity_history=False, **kw)
    return {"samples": core.digest([core.canon(s) for s in sl.iterator()]), "mean": core.digest(core.canon(mean))}


def cl_multi_lh(param, geovi):
    """Several likelihoods on different latent sub-domains: sums of operators with
    several (domain, target) groups, nested MultiDomains with many string keys."""
    import numpy as np
    import nifty.cl as ift
    dom = ift.UnstructuredDomain(3)
    ad = {k: ift.FieldAdapter(dom, k) for k in ("alpha", "beta", "gamma", "delta", "epsilon", "zeta")}
    rng = np.random.default_rng(param)
    icov = ift.ScalingOperator(dom, 4., sampling_dtype=float)

    def g(op):
        return ift.GaussianEnergy(ift.makeField(dom, rng.normal(size=3)), inverse_covariance=icov) @ op
    lh = (g(ad["alpha"]) + g(ad["alpha"] + 0.3 * ad["beta"].exp()) + g(ad["gamma"] * ad["beta"])
          + g(ad["delta"] + ad["epsilon"]) + g(ad["zeta"].exp() * 0.5 + ad["alpha"]))
    ic = ift.AbsDeltaEnergyController(1e-6, iteration_limit=10)
    mini = ift.NewtonCG(ift.AbsDeltaEnergyController(1e-6, iteration_limit=3))
    kw = {}
    if geovi:
        kw["nonlinear_sampling_minimizer"] = ift.NewtonCG(ift.AbsDeltaEnergyController(1e-6, iteration_limit=2))
    with ift.random.Context(2000 + param):
        sl, mean = ift.optimize_kl(lh, 2, 2, mini, ic, output_directory=None, return_final_position=True,
                                   plot_energy_history=False, plot_minisanity_history=False, **kw)
        ham = ift.StandardHamiltonian(lh, ic, prior_sampling_dtype=float)
        kl = ift.SampledKLEnergy(mean, ham, 2, None)
    return {"samples": core.digest([core.canon(s) for s in sl.iterator()]), "mean": core.digest(core.canon(mean)),
            "kl_value": core.digest(kl.value), "kl_gradient": core.digest(core.canon(kl.gradient)),
            "metric_sample": core.digest([core.canon(s) for s in kl.samples.iterator()])}


def jax_run(param):
    import jax
    jax.config.update("jax_enable_x64", True)
    import jax.numpy as jnp
    from jax import random as jr
    import nifty.re as jft
    harness.quiet()

    def fwd(x):
        return x["alpha"] * jnp.exp(0.3 * x["beta"]) + x["gamma"] + 0.5 * x["delta"]
    dom = {k: jft.ShapeWithDtype((3,), float) for k in ("alpha", "beta", "gamma", "delta")}
    m = jft.Model(fwd, domain=dom)
    lh = jft.Gaussian(jnp.array([0.3, -1.2, 2.0]) + 0.01 * param, noise_std_inv=lambda x: x / 0.5).amend(m)
    k1, k2 = jr.split(jr.PRNGKey(param))
    pos = jft.Vector(jft.random_like(k1, m.domain)) * 0.1
    s, st = jft.optimize_kl(
        lh, pos, key=k2, n_total_iterations=2, n_samples=2, constants=("alpha",), point_estimates=("gamma",),
        draw_linear_kwargs=dict(cg_name=None, cg_kwargs=dict(absdelta=1e-8, maxiter=20)),
        nonlinearly_update_kwargs=dict(minimize_kwargs=dict(name=None, xtol=1e-6, maxiter=3, cg_kwargs=dict(name=None))),
        kl_kwargs=dict(minimize_kwargs=dict(name=None, xtol=1e-6, maxiter=4, cg_kwargs=dict(name=None))),
        sample_mode="nonlinear_resample")
    return {"pos": core.digest(s.pos), "samples": core.digest(s._samples), "key": core.digest(st.key)}


def draws(param):
    import numpy as np
    import nifty.cl as ift
    out = {}
    dom = ift.makeDomain({k: ift.UnstructuredDomain(2) for k in ("zeta", "alpha", "mu", "beta", "omega")})
    with ift.random.Context(param):
        out["from_random_multi"] = core.digest(core.canon(ift.from_random(dom)))
        out["normal"] = core.digest(ift.random.Random.normal(np.float64, (5,)))
        out["uniform"] = core.digest(ift.random.Random.uniform(np.float64, (5,)))
        out["pm1"] = core.digest(ift.random.Random.pm1(np.int64, (5,)))
        ss = ift.random.spawn_sseq(3)
        with ift.random.Context(ss[1]):
            out["spawned"] = core.digest(ift.random.Random.normal(np.float64, (3,)))
        sub = dom.keys()
        out["keys_order"] = core.digest(list(sub))
    return out


WORK = {
    "cl_mgvi": lambda p: cl_run(p, False, 2),
    "cl_geovi": lambda p: cl_run(p, True, 1),
    "cl_map": lambda p: cl_run(p, False, 0),
    "cl_multi_lh": lambda p: cl_multi_lh(p, False),
    "cl_multi_lh_geovi": lambda p: cl_multi_lh(p, True),
    "jax_vi": jax_run,
    "draws": draws,
}


def main():
    harness.bind_repo()
    harness.quiet()
    wl, param = sys.argv[1], int(sys.argv[2])
    first = WORK[wl](param)
    # unrelated work in between, then the same computation again in this process
    other = WORK["draws"](param + 17)
    gc.collect()
    _ = {str(i): i for i in range(1000)}
    second = WORK[wl](param)
    print("C21RESULT " + json.dumps({"parts": first, "inproc_equal": first == second,
                                     "hashseed": os.environ.get("PYTHONHASHSEED"), "other": len(other)}))


if __name__ == "__main__":
    main()
