"""Fresh-interpreter worker for C21(a): python c21_worker.py <workload> <param>
prints one JSON line {"parts": {name: digest}, "inproc_equal": bool}."""
import gc
import json
import os
import sys

sys.path.insert(0, os.path.dirname(os.path.dirname(os.path.abspath(__file__))))
from verifsim import core, harness  # noqa: E402


def cl_run(param, geovi, ns):
    import numpy as np
    import nifty.cl as ift
    dom = ift.UnstructuredDomain(3)
    # four keys so that set-ordered key handling (constants / point estimates) matters
    a, b, c, d_ = (ift.FieldAdapter(dom, k) for k in ("alpha", "beta", "gamma", "delta"))
    op = a * (0.3 * b).exp() + c + 0.5 * d_
    data = ift.makeField(dom, np.array([0.3, -1.2, 2.0]) + 0.01 * param)
    lh = ift.GaussianEnergy(data, inverse_covariance=ift.ScalingOperator(dom, 4., sampling_dtype=float)) @ op
    ic = ift.AbsDeltaEnergyController(1e-6, iteration_limit=10)
    mini = ift.NewtonCG(ift.AbsDeltaEnergyController(1e-6, iteration_limit=3))
    kw = {}
    if geovi:
        kw["nonlinear_sampling_minimizer"] = ift.NewtonCG(ift.AbsDeltaEnergyController(1e-6, iteration_limit=2))
    with ift.random.Context(1000 + param):
        sl, mean = ift.optimize_kl(lh, 2, ns, mini, ic, output_directory=None, return_final_position=True,
                                   constants=["alpha", "gamma"], point_estimates=["gamma", "delta"],
                                   plot_energy_history=False, plot_minisanity_history=False, **kw)
    return {"samples": core.digest([core.canon(s) for s in sl.iterator()]), "mean": core.digest(core.canon(mean))}


def cl_multi_lh(param, geovi):
    """Several likelihoods on different latent sub-domains: sums of operators with
    several (domain, target) groups, nested MultiDomains with many string keys."""
    import numpy as np
    import nifty.cl as ift
    dom = ift.UnstructuredDomain(3)
    ad = {k: ift.FieldAdapter(dom, k) for k in ("alpha", "beta", "gamma", "delta", "epsilon", "zeta")}
    rng = np.random.default_rng(param)
    icov = ift.ScalingOperator(dom, 4., sampling_dtype=float)

    def g(op):
        return ift.GaussianEnergy(ift.makeField(dom, rng.normal(size=3)), inverse_covariance=icov) @ op
    lh = (g(ad["alpha"]) + g(ad["alpha"] + 0.3 * ad["beta"].exp()) + g(ad["gamma"] * ad["beta"])
          + g(ad["delta"] + ad["epsilon"]) + g(ad["zeta"].exp() * 0.5 + ad["alpha"]))
    ic = ift.AbsDeltaEnergyController(1e-6, iteration_limit=10)
    mini = ift.NewtonCG(ift.AbsDeltaEnergyController(1e-6, iteration_limit=3))
    kw = {}
    if geovi:
        kw["nonlinear_sampling_minimizer"] = ift.NewtonCG(ift.AbsDeltaEnergyController(1e-6, iteration_limit=2))
    with ift.random.Context(2000 + param):
        sl, mean = ift.optimize_kl(lh, 2, 2, mini, ic, output_directory=None, return_final_position=True,
                                   plot_energy_history=False, plot_minisanity_history=False, **kw)
        ham = ift.StandardHamiltonian(lh, ic, prior_sampling_dtype=float)
        kl = ift.SampledKLEnergy(mean, ham, 2, None)
    return {"samples": core.digest([core.canon(s) for s in sl.iterator()]), "mean": core.digest(core.canon(mean)),
            "kl_value": core.digest(kl.value), "kl_gradient": core.digest(core.canon(kl.gradient)),
            "metric_sample": core.digest([core.canon(s) for s in kl.samples.iterator()])}


def jax_run(param):
    import jax
    jax.config.update("jax_enable_x64", True)
    import jax.numpy as jnp
    from jax import random as jr
    import nifty.re as jft
    harness.quiet()

    def fwd(x):
        return x["alpha"] * jnp.exp(0.3 * x["beta"]) + x["gamma"] + 0.5 * x["delta"]
    dom = {k: jft.ShapeWithDtype((3,), float) for k in ("alpha", "beta", "gamma", "delta")}
    m = jft.Model(fwd, domain=dom)
    lh = jft.Gaussian(jnp.array([0.3, -1.2, 2.0]) + 0.01 * param, noise_std_inv=lambda x: x / 0.5).amend(m)
    k1, k2 = jr.split(jr.PRNGKey(param))
    pos = jft.Vector(jft.random_like(k1, m.domain)) * 0.1
    s, st = jft.optimize_kl(
        lh, pos, key=k2, n_total_iterations=2, n_samples=2, constants=("alpha",), point_estimates=("gamma",),
        draw_linear_kwargs=dict(cg_name=None, cg_kwargs=dict(absdelta=1e-8, maxiter=20)),
        nonlinearly_update_kwargs=dict(minimize_kwargs=dict(name=None, xtol=1e-6, maxiter=3, cg_kwargs=dict(name=None))),
        kl_kwargs=dict(minimize_kwargs=dict(name=None, xtol=1e-6, maxiter=4, cg_kwargs=dict(name=None))),
        sample_mode="nonlinear_resample")
    return {"pos": core.digest(s.pos), "samples": core.digest(s._samples), "key": core.digest(st.key)}


def cl_cfm(param):
    """The typical user model: correlated fields (many string keys, power-space
    caches, nested operator sums) + minisanity report."""
    import numpy as np
    import nifty.cl as ift
    sp = ift.RGSpace(8)
    f1 = ift.SimpleCorrelatedField(sp, 0., (1., .1), (1., .3), (.1, .05), (1., .5), (-3., .5), prefix="s1")
    f2 = ift.SimpleCorrelatedField(sp, 0., (1., .1), (.5, .2), None, None, (-2., .5), prefix="s2")
    sig = f1.exp() + f2
    rng = np.random.default_rng(param)
    data = ift.makeField(sp, rng.normal(size=8) + 1.)
    lh = ift.GaussianEnergy(data, inverse_covariance=ift.ScalingOperator(sp, 4., sampling_dtype=float)) @ sig
    ic = ift.AbsDeltaEnergyController(1e-6, iteration_limit=10)
    mini = ift.NewtonCG(ift.AbsDeltaEnergyController(1e-6, iteration_limit=3))
    with ift.random.Context(3000 + param):
        sl, mean = ift.optimize_kl(lh, 2, 2, mini, ic, output_directory=None, return_final_position=True,
                                   plot_energy_history=False, plot_minisanity_history=False)
        ms = ift.extra.minisanity(lh, sl, terminal_colors=False)
    return {"samples": core.digest([core.canon(s) for s in sl.iterator()]), "mean": core.digest(core.canon(mean)),
            "keys": core.digest(list(mean.keys())), "minisanity": core.digest(str(ms))}


def _scratch():
    import shutil
    d = f"/dev/shm/verif-c21-{os.getpid()}"
    shutil.rmtree(d, ignore_errors=True)
    os.makedirs(d)
    return d


def cl_odir(param, strategy):
    """Observation = the pickled results the driver leaves in its output directory."""
    import pickle
    import shutil
    import numpy as np
    import nifty.cl as ift
    dom = ift.UnstructuredDomain(3)
    a, b, c = (ift.FieldAdapter(dom, k) for k in ("alpha", "beta", "gamma"))
    op = a * (0.3 * b).exp() + c
    data = ift.makeField(dom, np.array([0.3, -1.2, 2.0]) + 0.01 * param)
    lh = ift.GaussianEnergy(data, inverse_covariance=ift.ScalingOperator(dom, 4., sampling_dtype=float)) @ op
    ic = ift.AbsDeltaEnergyController(1e-6, iteration_limit=10)
    mini = ift.NewtonCG(ift.AbsDeltaEnergyController(1e-6, iteration_limit=3))
    d = _scratch()
    out = {}
    try:
        with ift.random.Context(4000 + param):
            ift.optimize_kl(lh, 3, lambda i: 0 if i == 0 else 2, mini, ic, output_directory=d + "/out",
                            save_strategy=strategy, plot_energy_history=False, plot_minisanity_history=False,
                            fresh_stochasticity=lambda i: i != 2)
        for root, _, names in sorted(os.walk(d)):
            for nm in sorted(names):
                with open(os.path.join(root, nm), "rb") as f:
                    raw = f.read()
                rel = os.path.join(root, nm)[len(d):]
                if nm.endswith(".txt"):
                    out[rel] = core.digest([l for l in raw.decode().splitlines() if not l.startswith("Current datetime")])
                elif nm in ("last_finished_iteration", "nifty_random_state"):
                    out[rel] = core.digest(raw)
                else:
                    out[rel] = core.digest(pickle.loads(raw))
    finally:
        shutil.rmtree(d, ignore_errors=True)
    return out


def jax_cfm(param):
    import jax
    jax.config.update("jax_enable_x64", True)
    import jax.numpy as jnp
    import numpy as np
    from jax import random as jr
    import nifty.re as jft
    harness.quiet()
    cfm = jft.CorrelatedFieldMaker("cf")
    cfm.set_amplitude_total_offset(offset_mean=0., offset_std=(1., .1))
    cfm.add_fluctuations((8,), distances=(1. / 8,), fluctuations=(1., .3), loglogavgslope=(-3., .5),
                         flexibility=(1., .5), asperity=(.1, .05), prefix="ax1", non_parametric_kind="power")
    cf = cfm.finalize()

    class Sig(jft.Model):
        def __init__(self):
            self.cf = cf
            super().__init__(init=cf.init)

        def __call__(self, x):
            return jnp.exp(self.cf(x))
    d = jnp.asarray(np.random.default_rng(param).normal(size=8) + 1.)
    lh = jft.Gaussian(d, noise_std_inv=lambda x: x / 0.5).amend(Sig())
    k1, k2 = jr.split(jr.PRNGKey(param))
    pos = jft.Vector(lh.init(k1)) * 0.1
    s, st = jft.optimize_kl(
        lh, pos, key=k2, n_total_iterations=2, n_samples=2,
        draw_linear_kwargs=dict(cg_name=None, cg_kwargs=dict(absdelta=1e-8, maxiter=20)),
        nonlinearly_update_kwargs=dict(minimize_kwargs=dict(name=None, xtol=1e-6, maxiter=3, cg_kwargs=dict(name=None))),
        kl_kwargs=dict(minimize_kwargs=dict(name=None, xtol=1e-6, maxiter=4, cg_kwargs=dict(name=None))),
        sample_mode="nonlinear_resample")
    return {"pos": core.digest(s.pos), "samples": core.digest(s._samples), "key": core.digest(st.key),
            "keys": core.digest(sorted(s.pos.tree.keys()))}


def jax_odir(param):
    """JAX driver with an output directory: observation = the pickled state file."""
    import pickle
    import shutil
    import jax
    jax.config.update("jax_enable_x64", True)
    import jax.numpy as jnp
    from jax import random as jr
    import nifty.re as jft
    harness.quiet()

    def fwd(x):
        return x["alpha"] * jnp.exp(0.3 * x["beta"]) + x["gamma"]
    dom = {k: jft.ShapeWithDtype((3,), float) for k in ("alpha", "beta", "gamma")}
    m = jft.Model(fwd, domain=dom)
    lh = jft.Gaussian(jnp.array([0.3, -1.2, 2.0]) + 0.01 * param, noise_std_inv=lambda x: x / 0.5).amend(m)
    k1, k2 = jr.split(jr.PRNGKey(param))
    pos = jft.Vector(jft.random_like(k1, m.domain)) * 0.1
    d = _scratch()
    try:
        jft.optimize_kl(
            lh, pos, key=k2, n_total_iterations=3, n_samples=lambda i: 1 if i == 0 else 2, odir=d,
            draw_linear_kwargs=dict(cg_name=None, cg_kwargs=dict(absdelta=1e-8, maxiter=20)),
            nonlinearly_update_kwargs=dict(minimize_kwargs=dict(name=None, xtol=1e-6, maxiter=3, cg_kwargs=dict(name=None))),
            kl_kwargs=dict(minimize_kwargs=dict(name=None, xtol=1e-6, maxiter=4, cg_kwargs=dict(name=None))),
            sample_mode=lambda i: "linear_resample" if i < 2 else "nonlinear_update")
        with open(d + "/last.pkl", "rb") as f:
            s, st = pickle.load(f)
        with open(d + "/minisanity.txt") as f:
            ms = f.read()
    finally:
        shutil.rmtree(d, ignore_errors=True)
    return {"pos": core.digest(s.pos), "samples": core.digest(s._samples), "keys": core.digest(s.keys),
            "state": core.digest((st.nit, st.key, st.sample_state, st.minimization_state)), "minisanity": core.digest(ms)}


def jax_defaults(param, alt=False):
    """JAX driver with the library's DEFAULT solver options (nothing nested is specified), or - alt=True - with
    explicitly different nested options.  Run back to back in one process, the second must not see the first."""
    import jax
    jax.config.update("jax_enable_x64", True)
    import jax.numpy as jnp
    from jax import random as jr
    import nifty.re as jft
    harness.quiet()

    def fwd(x):
        return x["alpha"] * jnp.exp(0.3 * x["beta"]) + x["gamma"]
    dom = {k: jft.ShapeWithDtype((4,), float) for k in ("alpha", "beta", "gamma")}
    m = jft.Model(fwd, domain=dom)
    lh = jft.Gaussian(jnp.array([0.3, -1.2, 2.0, 0.5]) + 0.01 * param, noise_std_inv=lambda x: x / 0.5).amend(m)
    k1, k2 = jr.split(jr.PRNGKey(param))
    pos = jft.Vector(jft.random_like(k1, m.domain)) * 0.1
    kw = {}
    if alt:
        kw = dict(draw_linear_kwargs=dict(cg_name=None, cg_kwargs=dict(maxiter=2, miniter=1)),
                  nonlinearly_update_kwargs=dict(minimize_kwargs=dict(name=None, maxiter=1, xtol=1e-2,
                                                                      cg_kwargs=dict(name=None, maxiter=2))),
                  kl_kwargs=dict(minimize_kwargs=dict(name=None, maxiter=1, xtol=1e-2, cg_kwargs=dict(name=None, maxiter=2))))
    s, st = jft.optimize_kl(lh, pos, key=k2, n_total_iterations=2, n_samples=2, sample_mode="nonlinear_resample", **kw)
    return {"pos": core.digest(s.pos), "samples": core.digest(s._samples), "key": core.digest(st.key)}


def draws(param):
    import numpy as np
    import nifty.cl as ift
    out = {}
    dom = ift.makeDomain({k: ift.UnstructuredDomain(2) for k in ("zeta", "alpha", "mu", "beta", "omega")})
    with ift.random.Context(param):
        out["from_random_multi"] = core.digest(core.canon(ift.from_random(dom)))
        out["normal"] = core.digest(ift.random.Random.normal(np.float64, (5,)))
        out["uniform"] = core.digest(ift.random.Random.uniform(np.float64, (5,)))
        out["pm1"] = core.digest(ift.random.Random.pm1(np.int64, (5,)))
        ss = ift.random.spawn_sseq(3)
        with ift.random.Context(ss[1]):
            out["spawned"] = core.digest(ift.random.Random.normal(np.float64, (3,)))
        sub = dom.keys()
        out["keys_order"] = core.digest(list(sub))
    return out


WORK = {
    "cl_mgvi": lambda p: cl_run(p, False, 2),
    "cl_geovi": lambda p: cl_run(p, True, 1),
    "cl_map": lambda p: cl_run(p, False, 0),
    "cl_multi_lh": lambda p: cl_multi_lh(p, False),
    "cl_multi_lh_geovi": lambda p: cl_multi_lh(p, True),
    "jax_vi": jax_run,
    "cl_cfm": cl_cfm,
    "cl_odir_latest": lambda p: cl_odir(p, "latest"),
    "cl_odir_all": lambda p: cl_odir(p, "all"),
    "jax_cfm": jax_cfm,
    "jax_odir": jax_odir,
    "jax_defaults": jax_defaults,
    "draws": draws,
}


def main():
    harness.bind_repo()
    harness.quiet()
    wl, param = sys.argv[1], int(sys.argv[2])
    first = WORK[wl](param)
    # other work in between - unrelated draws AND a differently configured run of the same driver family (other
    # solver options, other sample mode / options), which must not leave anything behind - then the same computation again
    other = WORK["draws"](param + 17)
    if wl.startswith("jax"):
        jax_defaults(param + 5, alt=True)
    elif wl.startswith("cl_"):
        cl_run(param + 5, wl != "cl_geovi", 1 if wl != "cl_map" else 0)
    gc.collect()
    _ = {str(i): i for i in range(1000)}
    second = WORK[wl](param)
    print("C21RESULT " + json.dumps({"parts": first, "inproc_equal": first == second,
                                     "hashseed": os.environ.get("PYTHONHASHSEED"), "other": len(other)}))


if __name__ == "__main__":
    main()
