"""C24 - the JAX VI driver resumes after a kill with identical results.

Real code: nifty.re.optimize_kl (driver, pickling, JAX numerics).  Simulated:
the file system (SimFS journal).  For every sampled base run the journal of raw
file-system operations is recorded once; EVERY kill point (before the first
operation, after each operation, torn variants of each write) is then
reconstructed and the real driver is resumed on it.
"""
import json
import os
import random

from verifsim import core, crash, harness, simfs

PROP = "C24"
ROOT = "/simfs/c24"


# --------------------------------------------------------------------------
# workload
# --------------------------------------------------------------------------
def _spec(s, i):
    if isinstance(s, dict):
        return s["a"] if i < s["at"] else s["b"]
    return s


def make_problem(base):
    import jax
    jax.config.update("jax_enable_x64", True)
    import jax.numpy as jnp
    from jax import random as jr
    import nifty.re as jft
    harness.quiet()

    if base["model"] == "nl3":
        def fwd(x):
            return x["a"] * jnp.exp(0.3 * x["b"]) + x["c"]
        dom = {k: jft.ShapeWithDtype((3,), float) for k in "abc"}
        d = jnp.array([0.3, -1.2, 2.0])
    else:
        def fwd(x):
            return 2.0 * x["a"] + x["b"][:2]
        dom = {"a": jft.ShapeWithDtype((2,), float), "b": jft.ShapeWithDtype((3,), float)}
        d = jnp.array([0.7, -0.4])
    m = jft.Model(fwd, domain=dom)
    lh = jft.Gaussian(d, noise_std_inv=lambda x: x / 0.5).amend(m)
    kk = base.get("key_kind", "legacy")
    if kk == "legacy":
        k0 = jr.PRNGKey(base["key"])
    else:       # new-style typed keys; the implementation is part of the key's type
        k0 = jr.key(base["key"], impl={"typed": "threefry2x32", "typed_rbg": "rbg"}[kk])
    k1, k2 = jr.split(k0)
    pos = jft.Vector(jft.random_like(k1, m.domain)) * 0.1
    ns, sm = base["n_samples"], base["sample_mode"]
    kw = dict(
        key=k2, n_total_iterations=base["nit"],
        n_samples=(lambda i: _spec(ns, i)) if isinstance(ns, dict) else ns,
        sample_mode=(lambda i: _spec(sm, i)) if isinstance(sm, dict) else sm,
        point_estimates=tuple(base["point_estimates"]), constants=tuple(base["constants"]),
        jit=base["jit"],
        draw_linear_kwargs=dict(cg_name=None, cg_kwargs=dict(absdelta=1e-8, maxiter=20)),
        nonlinearly_update_kwargs=dict(minimize_kwargs=dict(name=None, xtol=1e-6, maxiter=3,
                                                            cg_kwargs=dict(name=None))),
        kl_kwargs=dict(minimize_kwargs=dict(name=None, xtol=1e-6, maxiter=4, cg_kwargs=dict(name=None))),
    )
    return jft, lh, pos, kw


def drive(base, prob, resume):
    """One call of the real driver on the currently mounted SimFS."""
    jft, lh, pos, kw = prob
    odir = ROOT + ("/out/deep/vi" if base.get("nested") else "/out")     # nested: several directory creations to cut between
    calls = []
    cb = (lambda s, st: calls.append(int(st.nit))) if base["callback"] else None
    if resume:
        res = (odir + "/last.pkl") if base["resume_path"] else True
    else:
        res = False
    if base.get("samples_input"):
        pos = jft.Samples(pos=pos, samples=None, keys=None)      # the driver also accepts a Samples object to start from
    s, st = jft.optimize_kl(lh, pos, odir=odir, resume=res, callback=cb, **kw)
    return s, st


def result_digest(s, st):
    return core.digest(("samples", s.pos, s._samples if hasattr(s, "_samples") else None,
                        s.keys if hasattr(s, "keys") else None,
                        "state", st.nit, st.key, st.sample_state, st.minimization_state))


def gen_base(rng):
    nsamp = rng.choice([0, 1, 2, 2, {"at": 1, "a": 1, "b": 2}, {"at": 1, "a": 0, "b": 1}])
    smode = rng.choice(["linear_resample", "nonlinear_resample", "nonlinear_update", "linear_sample",
                        {"at": 1, "a": "linear_resample", "b": "nonlinear_update"},
                        {"at": 2, "a": "nonlinear_resample", "b": "nonlinear_sample"}])
    model = rng.choice(["nl3", "nl3", "lin2"])
    keys = "abc" if model == "nl3" else "ab"
    pe = [rng.choice(keys)] if rng.random() < 0.3 else []
    co = [rng.choice(keys)] if rng.random() < 0.3 else []
    return {"model": model, "nit": rng.choice([2, 3, 3, 4]), "n_samples": nsamp, "sample_mode": smode,
            "point_estimates": pe, "constants": co, "jit": rng.random() < 0.8,
            "resume_path": rng.random() < 0.3, "callback": rng.random() < 0.5,
            "bufsize": rng.choice([1, 64, 4096, 8192, None]), "key": rng.randrange(1000),
            "key_kind": rng.choice(["legacy", "legacy", "typed", "typed_rbg"]), "nested": rng.random() < 0.3,
            "samples_input": rng.random() < 0.3}


SIMPLE_BASE = {"model": "lin2", "nit": 2, "n_samples": 1, "sample_mode": "linear_resample",
               "point_estimates": [], "constants": [], "jit": True, "resume_path": False,
               "callback": False, "bufsize": 8192, "key": 1}


# --------------------------------------------------------------------------
# exploring one base run
# --------------------------------------------------------------------------
def resume_on(base, prob, fs, refd):
    """Run the real driver with resume on the given durable state.
    Returns (sig-or-None, detail, fs_after)."""
    with simfs.mounted(fs):
        try:
            s, st = drive(base, prob, resume=True)
        except Exception as e:  # noqa
            import traceback
            tb = traceback.extract_tb(e.__traceback__)
            where = next((f"{os.path.basename(f.filename)}:{f.name}" for f in reversed(tb)
                          if "/nifty/" in f.filename), "?")
            return {"oracle": "resume-raised", "exc": type(e).__name__}, f"{type(e).__name__}: {e} @ {where}"
    if int(st.nit) != base["nit"]:
        return {"oracle": "resume-did-not-finish"}, f"nit={st.nit}"
    if result_digest(s, st) != refd:
        return {"oracle": "resume-result-differs"}, "samples/state differ from the uninterrupted run"
    return None, ""


def explore(job):
    """All kill points of one base run (+ seeded chains of further kills)."""
    base, seed, tier = job["base"], job["seed"], job["tier"]
    only = job.get("only")          # replay: [(k, torn), ...] chain
    rng = random.Random(core.h64(seed, "torn"))
    ticks0 = simfs.TICKS[0]
    prob = make_problem(base)
    fs0 = simfs.SimFS(ROOT, bufsize=base["bufsize"])
    with simfs.mounted(fs0):
        s, st = drive(base, prob, resume=False)
    refd = result_digest(s, st)
    j = fs0.journal
    out = {"base": base, "journal_len": len(j), "journal": [crash.op_name(o, ROOT) for o in j],
           "cuts": 0, "unique_states": 0, "fail": [], "windows": {}, "torn": 0, "chain_cuts": 0,
           "insitu_checked": 0, "resumed_ok": 0, "restart_from_scratch": 0}
    if only is not None:
        # replay of an explicit chain of kills
        fs = None
        jj = j
        for (k, torn) in only:
            fs = simfs.SimFS.from_journal(jj, k, torn, root=ROOT, bufsize=base["bufsize"])
            if (k, torn) != tuple(only[-1]):
                with simfs.mounted(fs):
                    try:
                        drive(base, prob, resume=True)
                    except Exception:
                        pass
                jj = fs.journal
        sig, detail = resume_on(base, prob, fs, refd)
        out["replay_sig"], out["replay_detail"] = sig, detail
        out["replay_listing"] = fs.listing()
        return out
    seen = {}
    allcuts = crash.cuts(j, rng, 3 if tier == "quick" else 5)
    for (k, torn) in allcuts:
        out["cuts"] += 1
        w = crash.window(j, k, torn, ROOT)
        out["windows"][w.split(":")[0]] = out["windows"].get(w.split(":")[0], 0) + 1
        if torn:
            out["torn"] += 1
        fs = simfs.SimFS.from_journal(j, k, torn, root=ROOT, bufsize=base["bufsize"])
        dg = fs.state_digest()
        if dg in seen:
            sig, detail = seen[dg]
        else:
            has_state = (ROOT + ("/out/deep/vi" if base.get("nested") else "/out") + "/last.pkl") in fs.files
            sig, detail = resume_on(base, prob, fs, refd)
            seen[dg] = (sig, detail)
            if sig is None:
                out["resumed_ok"] += 1
                if not has_state:
                    out["restart_from_scratch"] += 1
            # chains: kill the resumed run as well
            if sig is None and tier == "thorough" and len(fs.journal) > 0:
                j2 = fs.journal
                for _ in range(2):
                    k2 = rng.randrange(0, len(j2) + 1)
                    t2 = None
                    if k2 < len(j2) and j2[k2][0] == "write" and rng.random() < 0.5 and len(j2[k2][3]) > 1:
                        t2 = rng.randrange(1, len(j2[k2][3]))
                    # durable state = state before resume + prefix of the resume journal
                    fsb = simfs.SimFS.from_journal(j, k, torn, root=ROOT, bufsize=base["bufsize"])
                    fsb.record = False
                    for op in j2[:k2]:
                        fsb._apply(op)
                    if t2:
                        op = j2[k2]
                        fsb._apply(("write", op[1], op[2], op[3][:t2], op[4]))
                    fsb.record = True
                    out["chain_cuts"] += 1
                    sig2, det2 = resume_on(base, prob, fsb, refd)
                    if sig2 is not None:
                        w2 = crash.window(j2, k2, t2, ROOT)
                        sig2 = dict(sig2, window=w2)
                        out["fail"].append({"sig": sig2, "detail": det2, "chain": [[k, torn], [k2, t2]],
                                            "nit": base["nit"]})
        if sig is not None:
            out["fail"].append({"sig": dict(sig, window=w), "detail": detail, "chain": [[k, torn]],
                                "nit": base["nit"]})
    out["unique_states"] = len(seen)
    out["fs_operations"] = simfs.TICKS[0] - ticks0
    # in-situ cross-validation of the journal-cut shortcut on a seeded sample
    killable = [c for c in allcuts if c[0] < len(j)]
    for (k, torn) in rng.sample(killable, min(3 if tier == "quick" else 6, len(killable))):
        killed, dg = crash.insitu_state(lambda fs: drive(base, prob, resume=False), ROOT, base["bufsize"], k, torn)
        ref = simfs.SimFS.from_journal(j, k, torn, root=ROOT).state_digest()
        out["insitu_checked"] += 1
        if not killed or dg != ref:
            out.setdefault("harness_error", f"in-situ kill at {k}/{torn} disagrees with journal cut")
    return out


def bases_for(tier, seed):
    n = 32 if tier == "quick" else 320
    rng = random.Random(core.h64(seed, "c24-bases"))
    bases = [dict(SIMPLE_BASE), dict(SIMPLE_BASE, n_samples=0, nit=3, bufsize=64),
             dict(SIMPLE_BASE, model="nl3", n_samples=2, sample_mode="nonlinear_resample", nit=3, callback=True),
             dict(SIMPLE_BASE, key_kind="typed_rbg", nit=3), dict(SIMPLE_BASE, key_kind="typed", n_samples=2)]
    while len(bases) < n:
        bases.append(gen_base(rng))
    return bases


def minimise(fail, base, seed):
    """Smallest base configuration on which the same signature recurs."""
    sig = fail["sig"]
    cands = [dict(SIMPLE_BASE), dict(base, nit=2), dict(base, callback=False, resume_path=False, bufsize=8192),
             dict(base, point_estimates=[], constants=[])]
    for c in cands:
        if c == base:
            continue
        try:
            r = explore({"base": c, "seed": seed, "tier": "quick"})
        except Exception:
            continue
        for f in r["fail"]:
            if f["sig"] == sig:
                return c, f
    return base, fail


def replay(path):
    with open(path) as f:
        rep = json.load(f)
    r = explore({"base": rep["base"], "seed": 0, "tier": "quick",
                 "only": [tuple(c) for c in rep["chain"]]})
    sig = r["replay_sig"]
    if sig is not None:
        j = r["journal"]
    print("journal:", r["journal"])
    print("files at resume:", r["replay_listing"])
    rec = {k: v for k, v in rep["signature"].items() if k != "window"}
    print("replay signature:", json.dumps(sig, sort_keys=True), "| recorded:", json.dumps(rec, sort_keys=True))
    print("detail:", r["replay_detail"])
    if sig is None:
        print("replay: property holds on this tree for the recorded crash point")
        return harness.EXIT_OK
    print(f"VIOLATION property={PROP} replay={path}" + ("" if sig == rec else "  (different signature)"))
    return harness.EXIT_VIOLATION


def main(argv):
    a = harness.parse_args(argv)
    if a.replay:
        return replay(a.replay)
    rep = harness.Report(PROP, a.tier, a.seed, "fault_enumeration")
    bases = bases_for(a.tier, a.seed)
    jobs = [{"base": b, "seed": core.h64(a.seed, "c24", i), "tier": a.tier} for i, b in enumerate(bases)]
    results = harness.pmap(explore, jobs, chunk=1, hang_s=900 if a.tier == "quick" else 3000)
    tot = {"cuts": 0, "unique_states": 0, "torn": 0, "chain_cuts": 0, "insitu_checked": 0,
           "resumed_ok": 0, "restart_from_scratch": 0}
    windows = {}
    samples = []
    fails = {}
    nbase = 0
    for jb, r in zip(jobs, results):
        if r is None:
            continue
        if "harness_error" in r:
            rep.harness_error(str(r["harness_error"]) + " " + r.get("tb", "")[-600:])
            if "cuts" not in r:
                continue
        nbase += 1
        for k in tot:
            tot[k] += r[k]
        harness.merge_counts(windows, r["windows"])
        if len(samples) < 2:
            samples.append({"base": r["base"], "journal": r["journal"],
                            "cuts": r["cuts"], "unique_states": r["unique_states"]})
        for f in r["fail"]:
            k = json.dumps(f["sig"], sort_keys=True)
            fails.setdefault(k, []).append((f, jb))
    for k, lst in sorted(fails.items()):
        f, jb = min(lst, key=lambda x: (x[0]["nit"], len(x[0]["chain"]), x[0]["chain"][0][0]))
        base, f2 = minimise(f, jb["base"], jb["seed"])
        for _ in lst:
            rep.violation(f["sig"], {"engine": "crashsim/c24", "base": base, "chain": f2["chain"],
                                     "detail": f2["detail"],
                                     "replay_cmd": f"./check {PROP} --replay <this file>"})
    cov = {
        "evaluations": tot["cuts"] + tot["chain_cuts"],
        "distinct_nontrivial": tot["unique_states"],
        "rule": "one evaluation = one kill point (journal cut, optionally with a torn write, optionally a chain of two "
                "kills) of one base run, followed by a real resume run of the real driver; distinct = distinct durable "
                "file-system state per base run (state digest); non-trivial = every cut (each one is a crash)",
        "samples": samples,
        "base_runs": nbase,
        "exhaustive": False,
        "exhaustive_note": "crash points of each base run are enumerated exhaustively (every journal boundary + "
                           "torn variants at lengths 1, len-1 and seeded); base runs are sampled",
        "fault_kinds_fired": {"kill_by_window": windows, "torn_writes": tot["torn"], "kill_chains": tot["chain_cuts"]},
        "simulated_fs_operations": sum(r.get("fs_operations", 0) for r in results if isinstance(r, dict)),
        "simulated_time_note": "the fake clock advances 1 s per seam operation; no verdict depends on time",
        "probes": {"resume_ok_states": tot["resumed_ok"], "restart_from_scratch": tot["restart_from_scratch"],
                   "insitu_cross_validated_cuts": tot["insitu_checked"]},
        "real_components": ["nifty.re.optimize_kl driver, OptimizeVI, pickle, JAX numerics"],
        "stub_components": ["file system (SimFS, in memory, journalled)"],
    }
    return rep.finish(cov, assumptions=[
        "crash = process kill: completed raw operations are durable, buffered data is lost, the write in flight may be torn",
        "the resume runs in the same interpreter (the JAX driver keeps no module-level state); reported violations are replayed in a fresh process"])
