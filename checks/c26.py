"""C26 - sample lists persist faithfully and report exact statistics.

Hypothesis generates histories of phases; each phase is a short script of
collective sample-list operations (save / overwrite / load / statistics /
HDF5 export) run by N in 1..4 simulated ranks, without artificial barriers
between the operations, on a simulated disk that persists across phases (N
changes from phase to phase).  Reference model: base name -> list of samples
last saved successfully.
"""
import json
import os
import shutil

import numpy as np

from verifsim import core, harness, sched, simfs

PROP = "C26"
ROOT = "/simfs/c26"
BASES = ["x", "y", "x1", "x.1"]      # names that are prefixes of each other stress the file-name matching
H5NAMES = ["h0", "h1"]
_PRISTINE = None


class Violation(Exception):
    def __init__(self, sig, detail):
        super().__init__(detail)
        self.sig, self.detail = sig, detail


def reset_rng():
    global _PRISTINE
    import pickle
    import nifty.cl as ift
    if _PRISTINE is None:
        _PRISTINE = pickle.dumps(([np.random.SeedSequence(42)],
                                  [np.random.default_rng(np.random.SeedSequence(42))]))
    ift.random.setState(_PRISTINE)


# --------------------------------------------------------------------------
# sample contents, attributable to one uid each
# --------------------------------------------------------------------------
SHAPES = {"field": {"": (3,)}, "multi": {"a": (3,), "b": (2,)}}


def arrays(uid, ftype, keys=None, off=0.0):
    rng = np.random.default_rng(1000 + uid)
    out = {}
    for k, shp in SHAPES[ftype].items():
        v = rng.uniform(-2., 2., shp) + off
        if keys is None or k in keys:
            out[k] = v
    return out


def domains():
    import nifty.cl as ift
    d = ift.RGSpace(3)
    return {"field": d, "multi": ift.makeDomain({"a": d, "b": ift.UnstructuredDomain(2)}),
            "sub": ift.makeDomain({"a": d})}


def to_field(arrs, ftype, dom):
    import nifty.cl as ift
    if ftype == "field":
        return ift.makeField(dom, arrs[""])
    return ift.MultiField.from_raw(dom, arrs)


def from_field(f):
    import nifty.cl as ift
    if isinstance(f, ift.MultiField):
        return {k: np.array(v.asnumpy()) for k, v in f.items()}
    return {"": np.array(f.asnumpy())}


def expected_samples(entry):
    """numpy contents of every sample of a model entry."""
    ft = entry["ftype"]
    off = entry.get("off", 0.0)
    if entry["kind"] == "plain":
        return [arrays(u, ft, off=off) for u in entry["uids"]]
    mean = arrays(entry["mean"], ft, off=off)
    out = []
    for u, neg in zip(entry["uids"], entry["negs"]):
        r = arrays(u, ft, keys=("a",) if entry["sub"] and ft == "multi" else None)
        s = {}
        for k in mean:
            if k in r:
                s[k] = mean[k] - r[k] if neg else mean[k] + r[k]
            else:
                s[k] = mean[k].copy()
        out.append(s)
    return out


def apply_op(opname, arrs):
    if opname is None:
        return arrs
    if opname == "lin":
        return {k: 1.5 * v for k, v in arrs.items()}
    if opname == "adapter":
        # MultiField -> Field (another output type: different HDF5 layout, different statistics container)
        return {"": 2.0 * arrs["a"]} if "a" in arrs else {k: 1.5 * v for k, v in arrs.items()}
    return {k: np.exp(0.3 * v) for k, v in arrs.items()}


def nifty_op(opname, ftype, doms):
    import nifty.cl as ift
    D = doms[ftype]
    if opname is None:
        return None
    if opname == "lin":
        return ift.ScalingOperator(D, 1.5)
    if opname == "adapter":
        if ftype != "multi":
            return ift.ScalingOperator(D, 1.5)
        return ift.ScalingOperator(doms["field"], 2.0) @ ift.FieldAdapter(doms["field"], "a")
    return ift.ScalingOperator(D, 0.3).exp()


def close(a, b, rtol=1e-11):
    if set(a) != set(b):
        return False
    for k in a:
        x, y = np.asarray(a[k], dtype=float), np.asarray(b[k], dtype=float)
        if x.shape != y.shape:
            return False
        scale = max(1.0, float(np.max(np.abs(y))) if y.size else 1.0)
        if not np.all(np.abs(x - y) <= rtol * scale):
            return False
    return True


def var_close(got, var, mean, n):
    """Variance comparison with a conditioning-aware tolerance: a backward-stable
    one-pass or two-pass formula has relative error ~ n*eps*kappa with
    kappa = sqrt(1 + mean^2/var); the textbook E[x^2]-E[x]^2 has eps*kappa^2."""
    if set(got) != set(var):
        return False
    eps = np.finfo(float).eps
    for k in var:
        g, v, m = np.asarray(got[k], dtype=float), np.asarray(var[k], dtype=float), np.asarray(mean[k], dtype=float)
        if g.shape != v.shape:
            return False
        vs = max(float(np.max(v)), 1e-300) if v.size else 1.0
        kappa = float(np.sqrt(1.0 + np.max(m * m) / vs)) if v.size else 1.0
        tol = (1e-11 + 200.0 * max(n, 2) * eps * kappa) * max(vs, 1e-300)
        if not np.all(np.abs(g - v) <= tol) or not np.all(np.isfinite(g)):
            return False
    return True


def same(a, b):
    return set(a) == set(b) and all(np.array_equal(a[k], b[k]) and a[k].dtype == b[k].dtype for k in a)


def share_range(nwork, nshares, myshare):
    # reference re-statement of the documented distribution scheme
    nbase, add = divmod(nwork, nshares)
    lo = myshare * nbase + min(myshare, add)
    return lo, lo + nbase + (1 if myshare < add else 0)


# --------------------------------------------------------------------------
# history executor
# --------------------------------------------------------------------------
class World:
    def __init__(self):
        self.fs = simfs.SimFS(ROOT, passthrough=())
        self.scratch = f"/dev/shm/verif-c26-{os.getpid()}"
        shutil.rmtree(self.scratch, ignore_errors=True)
        os.makedirs(self.scratch)
        self.fs.passthrough = (self.scratch,)
        self.model = {b: None for b in BASES}
        self.uid = 0
        self.doms = domains()
        self.stats = {}
        self.probes = {"save_n_ne_load_n": 0, "shorter_over_longer": 0, "stale_higher_file_at_load": 0,
                       "overwrite_false_refused": 0, "hdf5_exports_checked": 0, "hdf5_refused": 0,
                       "loads_checked": 0, "stats_checked": 0, "empty_rank_in_save": 0,
                       "kind_change_on_resave": 0, "load_missing": 0}
        self.traces = []
        self.saved_with = {b: None for b in BASES}

    def close(self):
        shutil.rmtree(self.scratch, ignore_errors=True)

    def new_uid(self):
        self.uid += 1
        return self.uid

    # -- ground truth about which files exist (existence is not under test)
    def disk(self, base):
        pre = f"{ROOT}/{base}."
        idx, mean = set(), False
        for p in self.fs.files:
            if p.startswith(pre):
                rest = p[len(pre):]
                if rest == "mean.pickle":
                    mean = True
                elif rest.endswith(".pickle") and rest[:-7].isdigit():
                    idx.add(int(rest[:-7]))
        return idx, mean


def plan_subop(w, so, n):
    """Turn a generated sub-op into a fully explicit one + the model's
    expectation, and update the model.  Runs in the harness thread before the
    phase starts, so that every rank executes the same explicit plan."""
    kind = so["op"]
    base = so["base"]
    ent = w.model[base]
    idx, mean = w.sim_disk[base]
    if kind == "save":
        m = so["m"]
        if so.get("rel") is not None and ent is not None and not ent["unknown"]:
            # re-save relative to the list that is on disk: a bit shorter / longer than before
            m = min(13, max(1, len(ent["uids"]) + so["rel"]))
        cuts = sorted(c % (m + 1) for c in so["cuts"][:n - 1])
        cuts += [m] * (n - 1 - len(cuts))
        cuts = sorted(cuts)
        part = [b - a for a, b in zip([0] + cuts, cuts + [m])]
        new = {"kind": so["kind"], "ftype": so["ftype"], "uids": [w.new_uid() for _ in range(m)],
               "negs": [bool(x) for x in (so["negs"] + [0] * m)[:m]], "sub": bool(so["sub"]),
               "mean": w.new_uid() if so["kind"] == "residual" else None, "unknown": False,
               # ill-conditioned for variance formulas: large common offset, unit scatter
               "off": 1e8 if so.get("big") else 0.0}
        if 0 in part:
            w.probes["empty_rank_in_save"] += 1
        if m >= 10:
            w.probes["two_digit_sample_count"] = w.probes.get("two_digit_sample_count", 0) + 1
            if ent is not None and not ent["unknown"] and len(ent["uids"]) > m and so["overwrite"]:
                w.probes["two_digit_shorter_over_longer"] = w.probes.get("two_digit_shorter_over_longer", 0) + 1
        if so.get("master_only") and so["overwrite"] and n > 1:
            w.probes["master_only_save_then_collective_ops"] = w.probes.get("master_only_save_then_collective_ops", 0) + 1
        exists = bool(idx & set(range(m + 1))) or (so["kind"] == "residual" and mean)
        # files the statement guarantees to exist: those of the list saved last.  Stale higher-numbered
        # files of an older, longer list may or may not have been cleaned up - an implementation detail
        certain = set(range(len(ent["uids"]))) if (ent is not None and not ent["unknown"]) else set()
        exists_certain = bool(idx & certain & set(range(m + 1))) or \
            (so["kind"] == "residual" and mean and ent is not None and not ent["unknown"] and ent["kind"] == "residual")
        plan = dict(so, part=part, entry=new)
        if not so["overwrite"] and exists and not exists_certain:
            # refusal would hinge on a stale file only: either outcome is acceptable, contents unspecified afterwards
            plan["expect"] = "any"
            w.probes["overwrite_false_on_stale_only"] = w.probes.get("overwrite_false_on_stale_only", 0) + 1
            w.model[base] = {"unknown": True, "kind": so["kind"], "ftype": so["ftype"], "uids": [],
                             "negs": [], "sub": False, "mean": None}
            w.resync.add(base)
            return plan
        if so["overwrite"] or not exists:
            plan["expect"] = "ok"
            if ent is not None and not ent["unknown"]:
                if len(ent["uids"]) > m:
                    w.probes["shorter_over_longer"] += 1
                if ent["kind"] != so["kind"]:
                    w.probes["kind_change_on_resave"] += 1
            w.model[base] = new
            w.saved_with[base] = n
            nidx = (idx | set(range(m))) - {m}
            w.sim_disk[base] = (nidx, True if so["kind"] == "residual" else (False if so["overwrite"] else mean))
        else:
            plan["expect"] = "raise"
            w.probes["overwrite_false_refused"] += 1
            # some ranks may have written their files before another one refused:
            # contents of this base are unspecified until the next successful save
            if ent is not None:
                ent["unknown"] = True
            else:
                w.model[base] = {"unknown": True, "kind": so["kind"], "ftype": so["ftype"], "uids": [],
                                 "negs": [], "sub": False, "mean": None}
            w.resync.add(base)
        return plan
    # operations that start with a load
    plan = dict(so)
    if ent is not None and ent["unknown"]:
        # after a refused save the directory may hold a mix of two lists; what a
        # load does with that is not promised by anything -> do not execute it
        plan["op"] = "skip"
        plan["expect"] = "any"
        return plan
    if ent is None or (not idx) or 0 not in idx:
        plan["expect"] = "raise" if ent is None or not ent["unknown"] else "any"
        plan["cls"] = so.get("cls", "plain")
        w.probes["load_missing"] += 1
        return plan
    plan["cls"] = ent["kind"]
    if ent["kind"] == "residual" and not mean:
        plan["expect"] = "raise" if not ent["unknown"] else "any"
        return plan
    if ent["unknown"]:
        plan["expect"] = "any"
        return plan
    plan["expect"] = "ok"
    plan["entry"] = ent
    if ent.get("off") and plan.get("opname") == "nonlin":
        plan["opname"] = "lin"                   # exp(0.3e8) overflows
    if ent.get("off") and kind in ("stats", "hdf5"):
        w.probes["ill_conditioned_stats"] = w.probes.get("ill_conditioned_stats", 0) + 1
    m = len(ent["uids"])
    if any(i > m for i in idx):
        w.probes["stale_higher_file_at_load"] += 1
    if w.saved_with[base] is not None and w.saved_with[base] != n:
        w.probes["save_n_ne_load_n"] += 1
    if kind == "hdf5":
        name = so["h5"]
        path = f"{w.scratch}/{name}.h5"
        plan["path"] = path
        if os.path.isfile(path) and not so["overwrite"] or (name in w.h5_planned and not so["overwrite"]):
            plan["expect_h5"] = "raise"
            w.probes["hdf5_refused"] += 1
        else:
            plan["expect_h5"] = "ok"
            w.h5_planned.add(name)
            if not (so["samples"] or so["mean"] or so["std"]):
                plan["samples"] = True
    return plan


def rank_script(w, plans):
    """The script every simulated rank executes for one phase."""
    import nifty.cl as ift
    doms = w.doms

    def build(entry, lo, hi, comm):
        ft = entry["ftype"]
        D = doms[ft]
        off = entry.get("off", 0.0)
        if entry["kind"] == "plain":
            items = [to_field(arrays(u, ft, off=off), ft, D) for u in entry["uids"][lo:hi]]
            return ift.SampleList(items, comm=comm, domain=D)
        mean = to_field(arrays(entry["mean"], ft, off=off), ft, D)
        sub = entry["sub"] and ft == "multi"
        rd = doms["sub"] if sub else D
        res = [to_field(arrays(u, ft, keys=("a",) if sub else None), ft, rd) for u in entry["uids"][lo:hi]]
        return ift.ResidualSampleList(mean, res, entry["negs"][lo:hi], comm=comm)

    def run(comm):
        r = comm.Get_rank() if comm is not None else 0
        out = []
        for pl in plans:
            base = f"{ROOT}/{pl['base']}"
            try:
                if pl["op"] == "skip":
                    out.append(("ok", None))
                    continue
                if pl["op"] == "save" and pl.get("master_only") and pl["overwrite"] and comm is not None:
                    # "if master: save(...)" with a non-distributed list, followed by collective loads:
                    # only the synchronisation at the start of load() orders the two
                    comm.Barrier()     # a sane script synchronises before one task starts writing on its own
                    if r == 0:
                        sl = build(pl["entry"], 0, len(pl["entry"]["uids"]), None)
                        sl.save(base, overwrite=True)
                    out.append(("ok", None))
                    continue
                if pl["op"] == "save":
                    b = [0] + list(np.cumsum(pl["part"]))
                    sl = build(pl["entry"], int(b[r]), int(b[r + 1]), comm)
                    sl.save(base, overwrite=pl["overwrite"])
                    if pl.get("then_local_load") and pl["expect"] == "ok":
                        c1 = ift.ResidualSampleList if pl["entry"]["kind"] == "residual" else ift.SampleList
                        sl1 = c1.load(base)            # comm=None, by this task alone, right after save() returned
                        out.append(("ok", {"local_load": [from_field(sl1.local_item(i)) for i in range(sl1.n_local_samples)]}))
                        comm_barrier(comm)
                        continue
                    out.append(("ok", None))
                    continue
                cls = ift.ResidualSampleList if pl["cls"] == "residual" else ift.SampleList
                sl = cls.load(base, comm=comm)
                res = {"n_samples": int(sl.n_samples), "n_local": int(sl.n_local_samples),
                       "local": [from_field(sl.local_item(i)) for i in range(sl.n_local_samples)]}
                if pl["op"] == "load":
                    res["iterator"] = [from_field(s) for s in sl.iterator()]
                    if pl.get("also_local"):
                        # once a collective save/load has returned on a task the list is complete on disk:
                        # a non-collective load by that task alone must see all of it
                        sl1 = cls.load(base)
                        res["local_load"] = [from_field(sl1.local_item(i)) for i in range(sl1.n_local_samples)]
                        comm_barrier(comm)    # a sane script synchronises before anybody writes again
                elif pl["op"] == "stats":
                    op = nifty_op(pl["opname"], sl_ftype(sl), doms)
                    res["average"] = from_field(sl.average(op))
                    mm, vv = sl.sample_stat(op)
                    res["stat_mean"], res["stat_var"] = from_field(mm), from_field(vv)
                elif pl["op"] == "hdf5":
                    op = nifty_op(pl["opname"], sl_ftype(sl), doms)
                    try:
                        sl.save_to_hdf5(pl["path"], op=op, samples=pl["samples"], mean=pl["mean"],
                                        std=pl["std"], overwrite=pl["overwrite"])
                        res["h5"] = "ok"
                        if r == 0:
                            # the master task (the only one that touches the file) reads it back at once
                            import h5py
                            with h5py.File(pl["path"], "r") as f:
                                def rd(g):
                                    if isinstance(g, h5py.Dataset):
                                        return {"": np.array(g)}
                                    return {k: np.array(g[k]) for k in g.keys()}
                                back = {"groups": sorted(f.keys())}
                                if "samples" in f:
                                    back["samples"] = {k: rd(f["samples"][k]) for k in f["samples"].keys()}
                                if "stats" in f:
                                    back["stats"] = {k: rd(f["stats"][k]) for k in f["stats"].keys()}
                            res["h5back"] = back
                    except RuntimeError as e:
                        res["h5"] = "raised:" + type(e).__name__
                out.append(("ok", res))
            except sched.SimAbort:
                raise
            except Exception as e:  # noqa
                out.append(("raised", type(e).__name__, str(e)[:200]))
        return out
    return run


def comm_barrier(comm):
    if comm is not None:
        comm.Barrier()


def sl_ftype(sl):
    import nifty.cl as ift
    return "multi" if isinstance(sl.domain, ift.MultiDomain) else "field"


def check_phase(w, phase, plans, out):
    n = phase["n"]
    probs = out.problems()
    if probs:
        exc = next((e for e in out.exc if e is not None), None)
        sig = {"oracle": "rank-raised" if exc is not None else probs[0].split(":")[0],
               "ops": "+".join(sorted({p["op"] for p in plans}))}
        if exc is not None:
            sig["exc"] = type(exc).__name__
        raise Violation(sig, "; ".join(probs)[:500] + (f" | {exc}" if exc is not None else ""))
    for i, pl in enumerate(plans):
        outs = [out.results[r][i] for r in range(n)]
        tags = {o[0] for o in outs}
        what = pl["op"]
        if len(tags) != 1:
            raise Violation({"oracle": "ranks-disagree-on-outcome", "op": what},
                            f"sub-op {i} {what}: {[o[:2] for o in outs]}")
        tag = outs[0][0]
        if pl["expect"] == "any":
            continue
        if pl["expect"] == "raise":
            if tag != "raised":
                raise Violation({"oracle": "expected-error-missing", "op": what}, f"sub-op {i} {what} should have raised")
            continue
        if tag == "raised":
            raise Violation({"oracle": "unexpected-error", "op": what, "exc": outs[0][1]},
                            f"sub-op {i} {what}: {outs[0][1]}: {outs[0][2]}")
        ent = pl["entry"]
        exp = expected_samples(ent)
        m = len(exp)
        for r in range(n):
            res = outs[r][1]
            if isinstance(res, dict) and "local_load" in res:
                w.probes["non_collective_loads_checked"] = w.probes.get("non_collective_loads_checked", 0) + 1
                if len(res["local_load"]) != m or not all(same(a, b) for a, b in zip(res["local_load"], exp)):
                    raise Violation({"oracle": "non-collective-load-after-collective-op-differs", "op": what},
                                    f"rank {r}/{n}: a load by this task alone right after {what}() returned does not "
                                    f"see the list that was saved")
        if what == "save":
            continue
        for r in range(n):
            res = outs[r][1]
            lo, hi = share_range(m, n, r)
            if res["n_samples"] != m or res["n_local"] != hi - lo:
                raise Violation({"oracle": "wrong-sample-count", "op": what},
                                f"rank {r}/{n}: n_samples={res['n_samples']} n_local={res['n_local']} expected {m}/{hi - lo}")
            for j, s in enumerate(res["local"]):
                if not same(s, exp[lo + j]):
                    raise Violation({"oracle": "loaded-sample-differs", "op": what},
                                    f"rank {r}/{n} local {j} (global {lo + j}) differs from what was saved last")
            if what == "load":
                if len(res["iterator"]) != m or not all(same(a, b) for a, b in zip(res["iterator"], exp)):
                    raise Violation({"oracle": "iterator-differs", "op": what}, f"rank {r}/{n}")
        w.probes["loads_checked"] += 1
        if what in ("stats", "hdf5"):
            vals = [apply_op(pl["opname"], s) for s in exp]
            keys = list(vals[0])
            mean = {k: np.mean([v[k] for v in vals], axis=0) for k in keys}
            var = {k: (np.var([v[k] for v in vals], axis=0, ddof=1) if m > 1 else np.zeros_like(vals[0][k]))
                   for k in keys}
        if what == "stats":
            for r in range(n):
                res = outs[r][1]
                if not close(res["average"], mean) or not close(res["stat_mean"], mean):
                    raise Violation({"oracle": "mean-differs", "op": what}, f"rank {r}/{n}")
                if not var_close(res["stat_var"], var, mean, m):
                    raise Violation({"oracle": "variance-differs", "op": what}, f"rank {r}/{n}: {res['stat_var']} vs {var}")
            w.probes["stats_checked"] += 1
        if what == "hdf5":
            tags5 = {outs[r][1]["h5"] for r in range(n)}
            if len(tags5) != 1:
                raise Violation({"oracle": "ranks-disagree-on-outcome", "op": "hdf5"}, str(sorted(tags5)))
            t5 = tags5.pop()
            if pl["expect_h5"] == "raise":
                if t5 == "ok":
                    raise Violation({"oracle": "expected-error-missing", "op": "hdf5"}, "existing file, overwrite=False")
                continue
            if t5 != "ok":
                raise Violation({"oracle": "unexpected-error", "op": "hdf5", "exc": t5}, "export to a fresh path refused")
            back = outs[0][1]["h5back"]
            want = (["samples"] if pl["samples"] else []) + (["stats"] if (pl["mean"] or pl["std"]) else [])
            if back["groups"] != want:
                raise Violation({"oracle": "hdf5-groups-differ", "op": what}, f"{back['groups']} vs {want}")
            if pl["samples"]:
                if sorted(back["samples"], key=int) != [str(i) for i in range(m)]:
                    raise Violation({"oracle": "hdf5-samples-differ", "op": what}, str(sorted(back["samples"])))
                for i in range(m):
                    if not close(back["samples"][str(i)], vals[i]):
                        raise Violation({"oracle": "hdf5-samples-differ", "op": what}, f"sample {i}")
            st = back.get("stats", {})
            if sorted(st) != sorted((["mean"] if pl["mean"] else []) + (["standard deviation"] if pl["std"] else [])):
                raise Violation({"oracle": "hdf5-groups-differ", "op": what}, f"stats: {sorted(st)}")
            if pl["mean"] and not close(st["mean"], mean):
                raise Violation({"oracle": "hdf5-mean-differs", "op": what}, "")
            if pl["std"] and not var_close({k: np.square(v) for k, v in st["standard deviation"].items()}, var, mean, m):
                raise Violation({"oracle": "hdf5-std-differs", "op": what}, "")
            w.probes["hdf5_exports_checked"] += 1


def stat_calculator(seq_seed, n, shape_kind, reuse_buffer=False):
    """Streaming statistics over a generated value sequence.  reuse_buffer: the producer streams every value through
    one preallocated array (the calculator must not keep a reference to what it was handed)."""
    from nifty.cl.probing import StatCalculator
    rng = np.random.default_rng(seq_seed)
    shp = {0: (), 1: (4,), 2: (2, 3)}[shape_kind]
    vals = [rng.normal(size=shp) * 10.0 ** rng.integers(-2, 3) + rng.integers(-3, 4) for _ in range(n)]
    sc = StatCalculator()
    buf = np.empty(shp) if (reuse_buffer and shp != ()) else None
    for v in vals:
        if buf is not None:
            buf[...] = v
            sc.add(buf)
        else:
            sc.add(v)
    if not close({"": sc.mean}, {"": np.mean(vals, axis=0)}, 1e-11):
        raise Violation({"oracle": "statcalc-mean"}, f"n={n}")
    if n >= 2:
        if not close({"": sc.var}, {"": np.var(vals, axis=0, ddof=1)}, 1e-9):
            raise Violation({"oracle": "statcalc-var"}, f"n={n}")
    else:
        try:
            sc.var
        except RuntimeError:
            return
        raise Violation({"oracle": "statcalc-var-of-one"}, "no error for the variance of one value")


def run_history(phases, collect=None):
    """Execute one history; raises Violation."""
    w = World()
    sched.install_mpi_stub()
    try:
        for pi, ph in enumerate(phases):
            if ph.get("statcalc"):
                stat_calculator(*ph["statcalc"])
                continue
            n = ph["n"]
            w.sim_disk = {b: w.disk(b) for b in BASES}
            w.resync = set()
            w.h5_planned = set()
            plans = [plan_subop(w, so, n) for so in ph["subops"]]
            reset_rng()
            ssp = {"kind": "low"} if ph["sched"] == 0 else {"kind": "seeded", "seed": ph["sched"]}
            sem = [{"mode": "eager"}, {"mode": "rendezvous"}][ph["sem"]] if ph["sem"] < 2 else \
                {"mode": "mixed", "seed": ph["sem"]}
            if "choices" in ph:
                ssp = {"kind": "replay", "choices": ph["choices"], "strict": False}
            with simfs.mounted(w.fs, fake_clock=False):
                out = sched.simulate(rank_script(w, plans), n, ssp, sem, step_cap=100000, est_steps=150)
            harness.merge_counts(w.stats, out.stats)
            if collect is not None:
                collect.append({"n": n, "ops": [p["op"] for p in plans], "digest": out.trace_digest,
                                "steps": out.steps, "choices": list(out.choices)})
            check_phase(w, ph, plans, out)
        return w
    finally:
        w.close()


# --------------------------------------------------------------------------
# Hypothesis strategies
# --------------------------------------------------------------------------
def strategies():
    from hypothesis import strategies as st
    base = st.sampled_from(BASES)
    opn = st.sampled_from([None, "lin", "nonlin", "adapter"])
    save = st.fixed_dictionaries({
        "op": st.just("save"), "base": base, "kind": st.sampled_from(["plain", "residual"]),
        "ftype": st.sampled_from(["field", "multi"]),
        # two-digit sample counts: file names with multi-digit indices (numeric vs lexicographic order, per-digit parsing)
        "m": st.one_of(st.integers(1, 5), st.integers(1, 5), st.integers(1, 5), st.integers(9, 13)),
        "cuts": st.lists(st.integers(0, 13), min_size=0, max_size=3), "overwrite": st.booleans(),
        "negs": st.lists(st.integers(0, 1), min_size=0, max_size=5), "sub": st.booleans(),
        "big": st.sampled_from([False, False, True]), "master_only": st.sampled_from([False, False, True]),
        "then_local_load": st.sampled_from([False, True]),
        "rel": st.sampled_from([None, None, None, -1, -2, -3, 1])})
    save_ow = save.map(lambda d: dict(d, overwrite=True))
    load = st.fixed_dictionaries({"op": st.just("load"), "base": base, "cls": st.sampled_from(["plain", "residual"]),
                                  "also_local": st.booleans()})
    stats = st.fixed_dictionaries({"op": st.just("stats"), "base": base, "opname": opn})
    hdf5 = st.fixed_dictionaries({"op": st.just("hdf5"), "base": base, "opname": opn,
                                  "h5": st.sampled_from(H5NAMES), "samples": st.booleans(), "mean": st.booleans(),
                                  "std": st.booleans(), "overwrite": st.booleans()})
    subop = st.one_of(save_ow, save_ow, save, load, load, stats, hdf5)
    phase = st.fixed_dictionaries({"n": st.integers(1, 4), "sched": st.integers(0, 2**20),
                                   "sem": st.integers(0, 2**20),
                                   "subops": st.lists(subop, min_size=1, max_size=3)})
    statc = st.fixed_dictionaries({"statcalc": st.tuples(st.integers(0, 10**6), st.integers(1, 12), st.integers(0, 2),
                                                         st.booleans())})
    return st.lists(st.one_of(phase, phase, phase, phase, statc), min_size=1, max_size=6)


def hunt(job):
    """One Hypothesis run (one PRNG value) in one process."""
    from hypothesis import HealthCheck, Phase, Verbosity, given, seed, settings
    hseed, nex = job["hseed"], job["examples"]
    known = harness.load_known(PROP)
    state = {"runs": 0, "phases": 0, "fail": None, "digests": set(), "nontrivial": set(), "stats": {},
             "probes": {}, "known": {}, "sample": None}

    def body(phases):
        coll = []
        state["runs"] += 1
        try:
            w = run_history(phases, coll)
            harness.merge_counts(state["stats"], w.stats)
            harness.merge_counts(state["probes"], w.probes)
        except Violation as v:
            e = harness.match_known(known, v.sig)
            if e is not None:
                state["known"][e["key"]] = state["known"].get(e["key"], 0) + 1
            else:
                state["fail"] = {"phases": phases, "sig": v.sig, "detail": v.detail,
                                 "choices": [c.get("choices") for c in coll]}
                raise
        finally:
            state["phases"] += len(coll)
            hd = core.digest([c["digest"] for c in coll])
            state["digests"].add(hd)
            if any(c["n"] > 1 for c in coll):
                state["nontrivial"].add(hd)
            if state["sample"] is None and len(coll) >= 2:
                state["sample"] = {"history": phases, "phase_steps": [c["steps"] for c in coll]}

    test = seed(hseed)(settings(max_examples=nex, database=None, deadline=None, report_multiple_bugs=False,
                                suppress_health_check=list(HealthCheck), verbosity=Verbosity.quiet,
                                phases=[Phase.generate, Phase.shrink])(given(strategies())(body)))
    try:
        test()
    except Violation:
        pass
    except BaseException as e:  # noqa
        if state["fail"] is None:
            raise
    if state["fail"]:
        sig = state["fail"]["sig"]

        def fails(phs):
            try:
                run_history(phs)
            except Violation as v:
                return v.sig == sig
            except Exception:
                return False
            return False
        phs = harness.ddmin_list(state["fail"]["phases"], fails, 120)
        for i, ph in enumerate(phs):                       # also drop sub-operations inside the phases
            if "subops" in ph and len(ph["subops"]) > 1:
                ph2 = harness.ddmin_list(ph["subops"], lambda so: fails(phs[:i] + [dict(ph, subops=so)] + phs[i + 1:]), 40)
                phs = phs[:i] + [dict(ph, subops=ph2)] + phs[i + 1:]
        coll = []
        try:
            run_history(phs, coll)
        except Violation:
            pass
        state["fail"]["phases"] = phs
        state["fail"]["choices"] = [c.get("choices") for c in coll]
    out = {"runs": state["runs"], "phases": state["phases"], "fail": state["fail"],
           "digests": sorted(state["digests"]), "nontrivial": sorted(state["nontrivial"]),
           "stats": state["stats"], "probes": state["probes"], "known": state["known"], "sample": state["sample"]}
    return out


def replay(path):
    with open(path) as f:
        rep = json.load(f)
    phases = rep["history"]
    for ph, ch in zip(phases, rep.get("choices") or []):
        if ch is not None and "statcalc" not in ph:
            ph["choices"] = ch
    try:
        run_history(phases)
    except Violation as v:
        print("replay signature:", json.dumps(v.sig, sort_keys=True), "| recorded:",
              json.dumps(rep["signature"], sort_keys=True))
        print("detail:", v.detail)
        print(f"VIOLATION property={PROP} replay={path}" + ("" if v.sig == rep["signature"] else "  (different signature)"))
        return harness.EXIT_VIOLATION
    print("replay: property holds on this tree for the recorded history")
    return harness.EXIT_OK


def main(argv):
    a = harness.parse_args(argv)
    if a.replay:
        return replay(a.replay)
    rep = harness.Report(PROP, a.tier, a.seed, "exploration")
    nproc, nex = (32, 500) if a.tier == "quick" else (320, 1200)
    jobs = [{"hseed": core.h64(a.seed, "c26", i) % (2**31), "examples": nex} for i in range(nproc)]
    results = harness.pmap(hunt, jobs, chunk=1, hang_s=1500)
    tot = {"runs": 0, "phases": 0}
    digests, nontriv, stats, probes, samples = set(), set(), {}, {}, []
    for jb, r in zip(jobs, results):
        if r is None:
            continue
        if "harness_error" in r:
            rep.harness_error(r["harness_error"] + " " + r.get("tb", "")[-700:])
            continue
        tot["runs"] += r["runs"]
        tot["phases"] += r["phases"]
        digests.update(r["digests"])
        nontriv.update(r["nontrivial"])
        harness.merge_counts(stats, r["stats"])
        harness.merge_counts(probes, r["probes"])
        for k, c in r["known"].items():
            e = next(x for x in rep.known if x["key"] == k)
            rep.known_hits.setdefault(k, [e, 0, None])
            rep.known_hits[k][1] += c
        if r["sample"] and len(samples) < 2:
            samples.append(r["sample"])
        if r["fail"]:
            f = r["fail"]
            rep.violation(f["sig"], {"engine": "mpisim+hypothesis/c26", "history": f["phases"],
                                     "choices": f["choices"], "detail": f["detail"], "hypothesis_seed": jb["hseed"],
                                     "replay_cmd": f"./check {PROP} --replay <this file>"})
    cov = {
        "evaluations": tot["runs"], "distinct_nontrivial": len(nontriv),
        "rule": "one evaluation = one generated history (1-6 phases; a phase = 1-3 collective sample-list operations run "
                "back-to-back by N in 1..4 simulated ranks under a seeded schedule and send semantics, or a StatCalculator "
                "sequence) executed against the real code and the reference model; distinct = distinct tuple of per-phase "
                "trace digests; non-trivial = at least one phase with N >= 2",
        "samples": samples or [{"note": "no multi-phase sample recorded"}],
        "phases_executed": tot["phases"], "hypothesis_processes": len(jobs), "examples_per_process": nex,
        "fault_kinds_fired": {k: stats.get(k, 0) for k in
                              ["send_rendezvous", "rendezvous_blocked", "send_eager", "recv_blocked",
                               "bcast_root_early", "bcast_root_wait", "fs_ops"]},
        "probes": probes, "scheduler_steps": stats.get("handoffs", 0),
        "steps_with_choice": stats.get("multi_enabled_steps", 0), "distinct_histories": len(digests),
        "real_components": ["SampleList/ResidualSampleList save, load, iterator, average, sample_stat, save_to_hdf5; "
                            "StatCalculator; allreduce_sum; pickle; h5py (real, on a scratch directory)"],
        "stub_components": ["SimComm", "SimFS for the pickle files", "thread-rank scheduler"],
    }
    return rep.finish(cov, assumptions=[
        "samples are real-valued float64; complex statistics are not covered",
        "HDF5 files are written by the real h5py on /dev/shm (C library, outside the seam); only NIFTy's own path checks yield to the scheduler",
        "after a refused save (overwrite=False onto existing files) the contents of that base are treated as unspecified until the next successful save"])
