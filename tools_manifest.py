"""Regenerates MANIFEST.json from the tables below (python3 tools_manifest.py)."""
import json

NA = {
 "C01": "Matrix semantics of operator expression trees: a pure function of (tree, input); no schedule, clock, storage or second party for a simulator to own.",
 "C02": "Adjointness/inverse/linearity of each linear operator: pure function of (constructor args, input).",
 "C03": "Values and Jacobians of nonlinear expressions: pure function of (tree, input).",
 "C04": "Partial constant insertion preserves value/Jacobian/metric: pure function of (tree, constants, input).",
 "C05": "Tree optimiser preserves semantics: pure function of (tree, input); its one internal random self-check draw does not affect the result.",
 "C06": "Field arithmetic and contractions: pure array semantics.",
 "C08": "Domain geometry is pure; the identity-after-pickling clause is a deterministic memo-table lookup with no concurrent actor (exercised incidentally by every payload crossing simulated ranks/disk in C22/C25/C26, not claimed).",
 "C09": "Transform normalisation and backend agreement: pure per (input, convention flag).",
 "C10": "Power distribution/analysis: pure.",
 "C11": "Classic likelihood energies vs Fisher metrics: pure (expectations over data are integrals, not schedules).",
 "C12": "JAX likelihood metric factorisation: pure.",
 "C13": "Covariance of drawn samples: a statistical statement about a seeded generator; no fault or schedule in it.",
 "C14": "Classic CG solves HPD systems: pure; the iteration controllers read no clock.",
 "C15": "JAX CG accuracy and eager/compiled agreement: pure; a solve cut short by the eager wall-clock threshold does not 'meet the requested criterion', so the statement excludes the only clock seam.",
 "C16": "Monotone descent and Wolfe conditions: properties of a deterministic iteration history; no actor.",
 "C17": "Newton-CG never uphill / progress under negative curvature / eager = compiled: pure in (objective, start, limits); the time_threshold seam is outside statement and quantifier.",
 "C18": "Distribution of MGVI/geoVI samples: statistical and seeded; its multi-rank facet is reduced to the single-process case by C22's bit-identity.",
 "C19": "KL energy equals the sample average of the Hamiltonian: numeric identity; the distributed evaluation is C22's business.",
 "C20": "Wiener filter / VI give the exact linear-Gaussian posterior: numeric/statistical.",
 "C28": "Correlated-field implementations agree and are normalised: pure.",
 "C29": "Gauss-Markov covariances: pure.",
 "C30": "Prior transforms map quantiles: pure.",
 "C31": "Multi-grid index maps: pure combinatorics.",
 "C32": "Leapfrog reversibility and HMC/NUTS invariance: pure maps and seeded Markov chains; 'histories' here are chains, not interleavings.",
 "C33": "Pytree vector algebra and custom maps: pure.",
 "C34": "Lanczos / log-det / ELBO identities: pure; 'resumed' means passing arrays back in; the np.save side effects carry no promise in the statement.",
 "C35": "Response operators compute their documented quantity: pure.",
 "C36": "Minisanity statistics: pure.",
}

CHECKS = {}


def check(pid, engine, category, text, note, technique, design_ref, thorough=True):
    CHECKS[pid] = {
        "property_id": pid,
        "quick_cmd": f"timeout 1500 ./check {pid} --tier quick",
        "evidence_file": f"/verif/evidence/{pid}.json",
        "replay_cmd_template": f"./check {pid} --replay {{path}}",
        "engine": engine,
        "level_claimed": {"category": category, "text": text, "design_ref": design_ref},
        "level_note": note,
        "technique": technique,
    }
    if thorough:
        CHECKS[pid]["thorough_cmd"] = f"timeout 7000 ./check {pid} --tier thorough"


check("C07", "immut+hypothesis", "exploration",
      "Hypothesis generates and shrinks programs of 2-14 steps: construct a field by every public constructor from a "
      "tracked source array (fresh / view / non-contiguous / 0-d / complex / Fortran-ordered / ndarray subclasses, also "
      "with a wrapper of the source that exists before the field), from arrays derived through the public API from existing "
      "handles (fancy and mask indexing, pickle, deepcopy, copies), derive fields, take handles "
      "(val, raw, asnumpy, val.val, slices, views, reshape, T, real, to_dict, writable copies), build dependent operators "
      "(makeOp, Adder, GaussianEnergy, inverse) and WRITE at arbitrary instants through the source array or any handle "
      "(item/slice assignment, +=, *=, ufunc out=, fill, sort, put, flat, copyto, AnyArray in-place). After every step "
      "every live field must equal its construction-time byte snapshot (taken by a non-perturbing read) and every operator "
      "must still give snapshot-consistent results; a write may only succeed on a documented copy.",
      "Not generated because outside the statement: re-enabling flags.writeable by hand, writing through another alias of "
      "the same memory (the base of a view that was passed in). CPU arrays only. One open known finding: numpy's ufunc.at "
      "ignores the writeable flag, so np.add.at through a RAW numpy handle changes a field (not repairable inside NIFTy).",
      "deterministic simulation of an adversarial aliasing writer acting at arbitrary points of a construction history (Hypothesis-generated, snapshot reference model)",
      "DESIGN.md 3.6")

check("C21", "repro", "exploration",
      "(a) classic MGVI/geoVI/MAP runs (single and multi-likelihood, correlated-field models, with and without an output "
      "directory whose pickles are the observation), JAX VI runs (plain, correlated-field, with output directory) and raw "
      "draw sequences are executed in fresh interpreters under different PYTHONHASHSEED values and twice in one process with "
      "unrelated work in between: all result components must be bit-identical; (b) the same JAX VI problem (a 9-parameter "
      "one and a 96-parameter one whose sampling CG needs > 20 iterations) runs under every legal residual_map x kl_map x jit "
      "x minimizer-jit combination with the jittable static solvers and, where legal, the default eager solvers, and with the samples sharded over 2 or 4 host devices (41 "
      "variants): positions and samples must agree with the driver's default configuration to 1e-8 x scale; (c) Hypothesis "
      "generates programs over "
      "nifty.cl.random (nested Context, push/pop, spawn, four kinds of draws, exceptions raised at arbitrary statements and "
      "caught at arbitrary levels) that run against the real module and a model interpreter holding its own stack of "
      "independent generators: event traces, stack depths and generator identity after every scope must agree.",
      "Only the hash seed of a fresh process is controllable (addresses/cache state vary uncontrolled); native thread pools "
      "in XLA/ducc/BLAS are not schedulable; kl_map='lmap' is only legal without JIT (eager loop map).",
      "deterministic simulation: fresh-process/hash-seed perturbation, execution-strategy switching, Hypothesis-generated RNG-context programs with injected exceptions vs a reference interpreter",
      "DESIGN.md 3.7")

check("C22", "mpisim", "exploration",
      "Scripts exercising sample lists (W1), SampledKLEnergy MGVI/geoVI with constants/point estimates/mirroring (W2), "
      "StochasticEnergyAdapter (W3), full optimize_kl runs incl. output directory on a simulated disk, transitions, "
      "fresh_stochasticity callables and HDF5 operator exports (W4), and runs stopped on N tasks and resumed by a new job on M "
      "tasks (W5) are executed from their first line by N=1..6 thread-ranks behind a simulated communicator, under seeded "
      "schedules and eager/rendezvous/mixed send semantics, including more ranks than samples, randomised sampling minimisers, "
      "communicators given as functions of the iteration, 2-d Fortran-ordered fields and arbitrary ordered partitions "
      "with empty ranks; every named result component on every rank AND the canonical content of every output file (sample and "
      "history pickles, RNG state, marker, minisanity report, HDF5 datasets) must be bit-identical to the comm=None run. "
      "Sampled, not exhaustive.",
      "Trusted: SimComm's reading of MPI-3.1/mpi4py; rank isolation inside one interpreter (RNG stack swapped at every "
      "hand-off); shared POSIX file system semantics of SimFS. Real MPI (the quantifier's wording) is not loadable in this "
      "sandbox; simulated ranks stand in for it.",
      "deterministic simulation: real NIFTy code on N simulated MPI ranks, seeded schedule/semantics search, reference = single-process run, bitwise comparison",
      "DESIGN.md 3.2")

check("C23", "mpisim", "exploration",
      "All 710 ordered partitions of 1..8 summands over 1..4 tasks (empty tasks included) are enumerated; for each, and for "
      "each of 14 summand types (symbolic trees, floats, lists, tuples, strings, big ints, ndarrays: contiguous / strided / "
      "Fortran / 0-d / empty / mixed dtype, Fields incl. 2-d Fortran-ordered, MultiFields), "
      "the real allreduce_sum runs on thread-ranks behind a simulated communicator under seeded schedules and "
      "all-rendezvous / all-eager / mixed send semantics; every rank must return the bit-identical single-process value "
      "(tree equality for symbolic summands), no deadlock, no leftover messages. Sampling of schedules, not proof.",
      "Trusted: SimComm's reading of MPI-3.1 / mpi4py (blocking standard-mode send, named-source recv, non-overtaking, "
      "collectives, memory-order buffer transfer); rank isolation by swapping the RNG stack at each hand-off.",
      "deterministic simulation: seeded schedule + send-semantics search over simulated MPI ranks, deadlock detector, reference = single-process sum",
      "DESIGN.md 3.1")

check("C24", "crashsim", "fault_enumeration",
      "For each sampled base run of the real JAX driver (iterations 2-4, MAP / 1 / 2 / varying samples, all sample modes, "
      "constants, point estimates, jit on/off, resume=True or a path, callback, legacy and typed PRNG keys (threefry, rbg), "
      "nested output directory, Samples object as starting point, five write-buffer sizes) the journal of raw "
      "file-system operations is recorded once; every kill point (before the first op, after every op, torn variants of "
      "every write; thorough: chains of two kills) is reconstructed and the real driver is resumed on it; it must finish "
      "and return (samples, state) bit-identical to the uninterrupted run. Crash points are enumerated exhaustively per "
      "base run; base runs are sampled.",
      "Trusted: SimFS's model of POSIX (open/O_TRUNC, write, rename atomic, unlink) and of CPython buffering; crash = kill "
      "(completed raw ops durable, buffered data lost, in-flight write torn), not power loss; journal-cut shortcut "
      "cross-validated in situ on a seeded sample per base run.",
      "deterministic simulation: journalled in-memory FS, exhaustive kill-point enumeration + torn writes, real resume run vs uninterrupted reference",
      "DESIGN.md 3.3")

check("C25", "crashsim", "fault_enumeration",
      "For each sampled base run of the real classic driver (iterations 2-4, save_strategy all/latest, MAP / sampled / "
      "switching sample counts, MGVI/geoVI, transitions, fresh_stochasticity callables, constants, point estimates, "
      "likelihoods whose domain grows at an iteration, sanity checks on/off, five write-buffer sizes, 1-3 simulated MPI "
      "ranks; thorough: "
      "also 2-3 simulated MPI ranks and chains of two kills) every kill point - before/after every creat, write, close, "
      "unlink, rename, mkdir plus torn writes - is reconstructed from the journal and the real driver is resumed on it; "
      "it must finish with final samples and mean bit-identical to the uninterrupted run.",
      "Trusted: SimFS's POSIX/CPython-buffering model; crash = kill, not power loss; a resume is modelled as a fresh "
      "process by resetting the RNG stack and optimize_kl's module globals; plots and HDF5 export are off (they write "
      "outside the seam). One open known finding (save_strategy='latest', kill inside the multi-file overwrite).",
      "deterministic simulation: journalled in-memory FS, exhaustive kill-point enumeration + torn writes (+ kill chains, simulated ranks), real resume run vs uninterrupted reference",
      "DESIGN.md 3.4")

check("C26", "mpisim+hypothesis", "exploration",
      "Hypothesis generates and shrinks histories of phases; a phase is 1-3 collective sample-list operations (save of 1-13 "
      "samples - two-digit counts included - with any ordered partition incl. empty ranks and overwrite on/off, re-saves a "
      "little shorter/longer than the list on disk, master-only saves, collective and non-collective loads, "
      "average/sample_stat incl. ill-conditioned values, HDF5 export with all flag "
      "combinations) run back-to-back by N in 1..4 simulated ranks under a seeded schedule and send semantics on a "
      "simulated disk that persists across phases (N changes between phases), plus StatCalculator sequences. Oracle: "
      "reference model base -> samples last saved (every sample has a unique content id); loads must return exactly the "
      "shareRange slice bit for bit on every rank, statistics must equal numpy mean / ddof=1 variance (rtol 1e-11), HDF5 "
      "contents are read back by the master task; no deadlock, all ranks agree on success/failure.",
      "Trusted: SimComm/SimFS models; h5py writes to a real tmpfs directory outside the seam (only NIFTy's own path checks "
      "are yield points); real-valued samples only; contents after a refused save are treated as unspecified.",
      "deterministic simulation: Hypothesis-generated operation histories over simulated MPI ranks + simulated disk, reference-model oracle, seeded schedules",
      "DESIGN.md 3.5")

check("C27", "drivercfg+hypothesis", "exploration",
      "Weakest fit of the claimed set (the quantifier is over configurations). Unit of exploration = a history of driver "
      "invocations in one process: pass 1 runs every row of a seeded pairwise covering array over 22 option factors (incl. how the callbacks are "
      "declared: plain, default argument, functools.partial, callable object, bound method, *args; likelihood / minimisers / "
      "controller given as functions of the iteration; initial_index); pass 2 "
      "lets Hypothesis generate and shrink histories of 1-4 invocations (free combinations, not only array rows) with "
      "environment events in between (output directories kept/removed/switched, extra RNG-stack entry). Oracle per "
      "invocation: completes; return type; sample count of the result; constants bit-unchanged; point estimates carry no "
      "residual; callbacks called as documented; early termination; dry run writes no samples; expected files per "
      "strategy/plot/export option; nothing written without an output directory; RNG stack identical (same objects) after the call.",
      "Trusted: the recording pass-through layer sees only Python-level file operations (matplotlib/h5py write via C; their "
      "effects are seen through directory snapshots of the tmpfs scratch directory). No fault injection is involved.",
      "deterministic simulation (histories of invocations with perturbed process/global environment) over a pairwise covering array + Hypothesis-generated configuration histories",
      "DESIGN.md 3.8")

ENGINES = [
    {"name": "mpisim", "path": "verifsim/sched.py", "serves_properties": ["C22", "C23", "C26"],
     "kind_free_text": "baton-passing thread-ranks running real NIFTy code behind SimComm (fake mpi4py communicator); seeded policies, eager/rendezvous per message, deadlock detection, explicit replay"},
    {"name": "crashsim", "path": "verifsim/simfs.py", "serves_properties": ["C24", "C25"],
     "kind_free_text": "in-memory journalled file system patched under builtins.open/os.*; kill = journal prefix (+ torn write), then a real resume run"},
    {"name": "hypothesis-stateful", "path": "checks/", "serves_properties": ["C07", "C21", "C26", "C27"],
     "kind_free_text": "Hypothesis rule-based machines outside pytest generating and shrinking operation/fault histories"},
]


def main():
    import os
    claimed = [CHECKS[k] for k in sorted(CHECKS)]
    na = [{"property_id": k, "reason": v} for k, v in sorted(NA.items()) if k not in CHECKS]
    m = {
        "version": 1,
        "setup_cmd": "/venv/bin/python -c 'import hypothesis' 2>/dev/null || /venv/bin/pip install --no-index --find-links /opt/veriftools/wheels hypothesis; ./check selftest --smoke",
        "hooks": {
            "guard": "NIFTY_VERIF_SIM",
            "enable": "no hooks exist: every seam is injected from outside (comm argument, builtins.open/os.* patches, module attributes); nifty is an editable install, checks import /repo's working tree directly",
            "baseline_off_cmd": "cd /repo && /venv/bin/python -m pytest -ra -q -p no:cacheprovider --timeout=900 --continue-on-collection-errors",
            "source_commits": [],
            "add_only": True,
        },
        "engines": ENGINES,
        "checks": claimed,
        "not_applicable": na,
        "notes": "Technique family: deterministic simulation with fault injection. See DESIGN.md. Exit 2 = harness error (never a pass).",
    }
    with open(os.path.join(os.path.dirname(os.path.abspath(__file__)), "MANIFEST.json"), "w") as f:
        json.dump(m, f, indent=1)


if __name__ == "__main__":
    main()
